#!/usr/bin/env python3
"""Regenerates MANIFEST.json from props.json (claimed checks) and properties.jsonl (everything else -> not_applicable)."""
import json, os, subprocess
here = os.path.dirname(os.path.abspath(__file__))
props = json.load(open(os.path.join(here, "props.json")))
allp = [json.loads(l) for l in open(os.path.join(here, "properties.jsonl"))]
na = json.load(open(os.path.join(here, "not_applicable.json"))) if os.path.exists(os.path.join(here, "not_applicable.json")) else {}
hooks = subprocess.run(["git", "-C", "/repo", "log", "--format=%H %s"], capture_output=True, text=True).stdout.splitlines()
hook_commits = [l.split()[0] for l in hooks if " verif hook" in l]
cat = {"proof": "proof", "other": "other", "exploration": "exploration", "model_checking": "model_checking"}
checks = []
for p in allp:
    c = props.get(p["id"])
    if not c:
        continue
    checks.append({
        "property_id": p["id"],
        "quick_cmd": f"./check {p['id']} --tier quick",
        "thorough_cmd": f"./check {p['id']} --tier thorough",
        "evidence_file": f"/verif/evidence/{p['id']}.json",
        "replay_cmd_template": f"./check {p['id']} --replay {{path}}",
        "engine": "slimvc",
        "level_claimed": {"category": cat[c["level"]], "text": c["level_text"], "design_ref": c.get("design_ref", "DESIGN.md section 9")},
        "level_note": c["level_note"],
        "technique": c["technique"],
    })
m = {
    "version": 1,
    "setup_cmd": "bash ./setup.sh",
    "hooks": {
        "guard": "verif",
        "enable": "go build -tags verif ./...  (comment-only contract files zz_verif_contracts.go plus ghost lemma functions, compiled only with the tag)",
        "baseline_off_cmd": "cd /repo && GOFLAGS=-mod=mod go test -vet=off -count=1 -timeout 25m ./...",
        "source_commits": hook_commits,
        "add_only": True,
    },
    "engines": [
        {"name": "slimvc", "path": "/verif/engine", "serves_properties": sorted(props), "kind_free_text": "verification-condition generator over go/ssa (naive form) of /repo + //@ contracts -> SMT-LIB 2, discharged by z3 5.1.0 / z3 4.8.12 / cvc5 1.0.3"},
        {"name": "framecheck", "path": "/verif/framecheck", "serves_properties": [k for k in sorted(props) if "frame" in props[k]["backends"]], "kind_free_text": "modular region/ownership checker over go/ssa deciding modifies / fresh / borrows obligations"},
        {"name": "bounded", "path": "/verif/bounded", "serves_properties": [k for k in sorted(props) if "bounded" in props[k]["backends"]], "kind_free_text": "bounded contract check (go test -overlay) of the property-level postconditions over enumerated domains; stand-in, never counted as proved"},
    ],
    "checks": checks,
    "notes": "Contract-based deductive verification of the real code; see DESIGN.md. Findings repaired by fix: commits are listed in known_findings.json.",
    "not_applicable": [{"property_id": p["id"], "reason": na.get(p["id"], "check not built yet in this commit (implementation in progress; plan in DESIGN.md section 9)")} for p in allp if p["id"] not in props],
}
json.dump(m, open(os.path.join(here, "MANIFEST.json"), "w"), indent=1)
print("claimed:", [c["property_id"] for c in checks])
