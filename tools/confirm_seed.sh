#!/bin/bash
# confirm_seed.sh <id> <seed_out_dir> <pkgdir of demo>: confirms a seeded change in a scratch worktree:
#  builds; demo test FAILS with the change and PASSES without; the repository's own suite passes with the change.
set -u
id=$1; src=$2; pkg=${3:-trie}
export GOFLAGS=-mod=mod GOPROXY=off GOSUMDB=off GOTOOLCHAIN=local
wt=/tmp/confirm_$id
rm -rf $wt; git -C /repo worktree prune; git -C /repo worktree add -q --detach $wt HEAD || exit 2
cd $wt
log=/tmp/confirm_$id.log; : > $log
cp $src/seed_demo_test.go $pkg/seed_demo_test.go
go test -count=1 -vet=off -run 'TestSeedDemo' ./$pkg/ >> $log 2>&1; base=$?
git apply $src/patch.diff || { echo "patch does not apply" >> $log; exit 2; }
go build ./... >> $log 2>&1; build=$?
go test -count=1 -vet=off -run 'TestSeedDemo' ./$pkg/ >> $log 2>&1; mut=$?
rm -f $pkg/seed_demo_test.go
go test -count=1 -vet=off -timeout 40m ./... >> $log 2>&1; suite=$?
echo "RESULT id=$id build=$build demo_without_change_exit=$base demo_with_change_exit=$mut suite_with_change_exit=$suite" | tee -a $log
cd /; git -C /repo worktree remove --force $wt
