#!/usr/bin/env python3
"""probe.py <smtfile> [T] : reads extra assertion sets from stdin separated by lines '---' and reports z3-new result for each."""
import sys, subprocess, time
f = sys.argv[1]; T = int(sys.argv[2]) if len(sys.argv) > 2 else 20
s = open(f).read(); idx = s.rindex('(assert (not')
sets = sys.stdin.read().split('\n---\n')
for h in sets:
    t = s[:idx] + h + "\n" + s[idx:]
    open('/tmp/probe.smt2', 'w').write(t)
    t0 = time.time()
    try:
        r = subprocess.run(['z3-new', f'-T:{T}', '/tmp/probe.smt2'], capture_output=True, text=True, timeout=T + 10).stdout.split('\n')[0]
    except Exception:
        r = 'TO'
    print(repr(h[:90]), r, round(time.time() - t0, 1), flush=True)
