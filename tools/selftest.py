#!/usr/bin/env python3
"""selftest.py [-j N] [--only substr] [--seeds] [--mutants]

Must-fail / must-stay-quiet corpus of the whole pipeline (DESIGN.md 0.7). Run after every engine, prelude or contract
change. Nothing here is a registered check; it exercises the registered checks (./check <prop>, quick tier) on scratch
copies of /repo (under a mktemp dir, removed afterwards), never on /repo itself:

  * selftest/mutants.json: textual edits of /repo sources. expect="caught": ./check must exit 1 with a VIOLATION line;
    expect="quiet": a behaviour-preserving refactor, ./check must exit 0 without VIOLATION;
  * seeded/<id>/patch.diff: the seeded changes written by independent sub-agents; every one must be caught by the
    check of the property it was written against (meta.json: breaks_property).

Writes selftest/RESULTS.md (table) and exits 1 if any expectation is not met.
"""
import sys, os, json, subprocess, shutil, tempfile, glob, time
from concurrent.futures import ThreadPoolExecutor

HERE = os.path.dirname(os.path.dirname(os.path.abspath(__file__)))
ENV = dict(os.environ, GOFLAGS="-mod=mod", GOPROXY="off", GOSUMDB="off", GOTOOLCHAIN="local")


def run_case(case):
    d = tempfile.mkdtemp(prefix="selftest.")
    t0 = time.time()
    try:
        subprocess.run(["rsync", "-a", "--exclude", ".git", "/repo/", d + "/repo/"], check=True)
        if "patch" in case:
            r = subprocess.run(["patch", "-p1", "-s", "-i", case["patch"]], cwd=d + "/repo", capture_output=True, text=True)
            if r.returncode != 0:
                return dict(case, outcome="patch-does-not-apply", ok=False, detail=r.stdout[-300:])
        else:
            p = os.path.join(d, "repo", case["file"])
            s = open(p).read()
            if case["old"] not in s:
                return dict(case, outcome="pattern-not-found", ok=False, detail="")
            s = s.replace(case["old"], case["new"], 1)
            open(p, "w").write(s)
        r = subprocess.run(["go", "build", "./..."], cwd=d + "/repo", capture_output=True, text=True, env=ENV)
        if r.returncode != 0:
            return dict(case, outcome="does-not-compile", ok=False, detail=r.stderr[-300:])
        res = {}
        ok = True
        for prop in case["props"]:
            env = dict(ENV, VERIF_REPO=d + "/repo", VERIF_EVIDENCE_DIR=d + "/evidence")
            r = subprocess.run([os.path.join(HERE, "check"), prop], env=env, capture_output=True, text=True)
            viol = "VIOLATION" in r.stdout
            failed = [l.strip()[8:] for l in r.stdout.splitlines() if l.strip().startswith("failed:")]
            kinds = sorted(set(("bounded" if f.startswith("bounded:") else ("frame" if any(x in f for x in ("/frame#", "/escape#", "/fresh#", "/borrow")) else "smt")) for f in failed))
            res[prop] = {"exit": r.returncode, "violation": viol, "by": kinds, "first": [f[:160] for f in failed[:3]]}
            if case["expect"] == "caught":
                pass
            else:
                if r.returncode != 0 or viol:
                    ok = False
        if case["expect"] == "caught":
            ok = any(v["exit"] == 1 and v["violation"] for v in res.values())
        return dict(case, outcome=res, ok=ok, seconds=round(time.time() - t0, 1))
    finally:
        shutil.rmtree(d, ignore_errors=True)


def main():
    args = sys.argv[1:]
    j = 3
    only = None
    want_seeds = want_mut = True
    i = 0
    while i < len(args):
        if args[i] == "-j":
            j = int(args[i + 1]); i += 2
        elif args[i] == "--only":
            only = args[i + 1]; i += 2
        elif args[i] == "--seeds":
            want_mut = False; i += 1
        elif args[i] == "--mutants":
            want_seeds = False; i += 1
        else:
            i += 1
    cases = []
    if want_mut:
        for m in json.load(open(os.path.join(HERE, "selftest", "mutants.json")))["mutants"]:
            cases.append(m)
    if want_seeds:
        for meta in sorted(glob.glob(os.path.join(HERE, "seeded", "*", "meta.json"))):
            md = json.load(open(meta))
            props = [md["breaks_property"]]
            cases.append({"id": "seed:" + md["id"], "props": props, "patch": os.path.join(os.path.dirname(meta), "patch.diff"), "expect": "caught",
                          "what": "seeded change " + md["id"]})
    if only:
        cases = [c for c in cases if only in c["id"]]
    subprocess.run(["bash", os.path.join(HERE, "setup.sh")], stdout=subprocess.DEVNULL, stderr=subprocess.DEVNULL)
    with ThreadPoolExecutor(max_workers=j) as ex:
        results = list(ex.map(run_case, cases))
    bad = 0
    lines = ["| id | expectation | properties checked | outcome | caught by | ok |", "|---|---|---|---|---|---|"]
    for r in results:
        if isinstance(r["outcome"], dict):
            oc = "; ".join(f"{p}: exit {v['exit']}" for p, v in r["outcome"].items())
            by = "; ".join(f"{p}: {'+'.join(v['by'])}" for p, v in r["outcome"].items() if v["by"])
        else:
            oc, by = r["outcome"], ""
        lines.append(f"| {r['id']} | {r['expect']} | {' '.join(r['props'])} | {oc} | {by} | {'yes' if r['ok'] else '**NO**'} |")
        print(("ok   " if r["ok"] else "FAIL ") + r["id"], r["expect"], oc, by, flush=True)
        if not r["ok"]:
            bad += 1
            if isinstance(r["outcome"], dict):
                for p, v in r["outcome"].items():
                    for f in v["first"]:
                        print("      ", p, f)
    if not only:
        with open(os.path.join(HERE, "selftest", "RESULTS.md"), "w") as fh:
            fh.write("# selftest results (tools/selftest.py; quick tier; scratch copies of /repo)\n\n" + "\n".join(lines) + "\n")
    sys.exit(1 if bad else 0)


if __name__ == "__main__":
    main()
