#!/usr/bin/env python3
"""mk_seed_prompts.py <round letter> [props...]: writes /tmp/seed_prompts/<prop><round>.txt — the ONLY thing a seeding
sub-agent is given (property text + its scratch worktree + what to deliver). Nothing from /verif's checks goes in;
the list of functions to avoid is just "where earlier seeds were made", so that rounds differ."""
import json, sys, os, glob, re
rnd = sys.argv[1]
want = sys.argv[2:]
props = [json.loads(l) for l in open('/verif/properties.jsonl')]
avoid = {}
for m in glob.glob('/verif/seeded/*/meta.json'):
    meta = json.load(open(m))
    p = meta['breaks_property']
    patch = open(os.path.join(os.path.dirname(m), 'patch.diff')).read()
    fns = set(re.findall(r'^@@.*@@ func (?:\([^)]*\) )?(\w+)', patch, re.M))
    avoid.setdefault(p, set()).update(fns)
os.makedirs('/tmp/seed_prompts', exist_ok=True)
for p in props:
    if want and p['id'] not in want:
        continue
    sid = p['id'] + rnd
    txt = f"""You are helping to evaluate a verification effort for the Go library openacid/slim (a static succinct trie index, "SlimTrie").
You have your OWN scratch git worktree of the repository at /tmp/wt_{sid} (already created; work ONLY there; never touch /repo or /verif, and do not read anything under /verif).
Environment for every shell call: export GOFLAGS=-mod=mod GOPROXY=off GOSUMDB=off GOTOOLCHAIN=local   (no network; env does not persist between calls).

Here is one semantic property the library is supposed to satisfy:

  id: {p['id']}
  title: {p['title']}
  statement: {p['statement']}
  quantifier: {p.get('quantifier','')}

TASK. Write a realistic change to the library's NON-test source (a plausible refactor, optimisation or "fix" a developer might really make) that
  (1) BREAKS this property,
  (2) still compiles (go build ./...) and
  (3) still passes the repository's whole existing test suite unedited (go test -count=1 ./... in the worktree; the trie package takes a few minutes),
and that needs something SPECIFIC to manifest — an unusual input (e.g. particular byte values, lengths, counts at a word/bit boundary, many keys of a special shape), a multi-step sequence of operations, a particular option combination, or two cooperating edit sites that each look fine alone — not something ordinary use would expose at once.
Do NOT edit files named zz_verif_contracts.go (comment-only, build-tagged; ignore them), do not edit tests, do not add build tags.
To be different from earlier attempts, do NOT make your change inside these functions: {', '.join(sorted(avoid.get(p['id'], []))) or '(none)'}.

DELIVER, in the directory /tmp/seed_out/{sid}/ (create it):
  patch.diff          — `git -C /tmp/wt_{sid} diff HEAD` of your source change only (no test files in it)
  seed_demo_test.go   — a Go test file (test function names starting with TestSeedDemo) for ONE package directory of the repo that FAILS with your change and PASSES without it; it must compile as part of that package's tests (say in notes.md which package directory, e.g. trie/ or index/ or array/ or encode/)
  notes.md            — first line: "package dir: <dir>"; then what you changed, why it breaks the property, and exactly what is needed for it to manifest.
Verify all of it yourself in the worktree before finishing: demo passes at HEAD (git stash or apply -R), fails with the change, full suite passes with the change (without the demo file present). Leave the worktree clean of the demo file at the end. Keep the change small (ideally < 30 changed lines). Report in your final message: the package dir, a 2-line summary, and the exact commands you ran with their outcome.
"""
    open(f'/tmp/seed_prompts/{sid}.txt', 'w').write(txt)
    print(sid, sorted(avoid.get(p['id'], [])))
