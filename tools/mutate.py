#!/usr/bin/env python3
"""mutate.py <prop> <relfile> <old> <new> [count] : apply a textual mutation to a scratch copy of /repo and run ./check-style slimvc on it."""
import sys, os, subprocess, shutil, tempfile
prop, rel, old, new = sys.argv[1:5]
d = tempfile.mkdtemp(prefix="mut.")
try:
    subprocess.run(["rsync", "-a", "--exclude", ".git", "/repo/", d + "/repo/"], check=True)
    p = os.path.join(d, "repo", rel)
    s = open(p).read()
    if old not in s:
        print("pattern not found"); sys.exit(2)
    s = s.replace(old, new, int(sys.argv[5]) if len(sys.argv) > 5 else 1)
    open(p, "w").write(s)
    r = subprocess.run(["go", "build", "./..."], cwd=d + "/repo", capture_output=True, text=True, env=dict(os.environ, GOFLAGS="-mod=mod", GOPROXY="off", GOSUMDB="off"))
    if r.returncode != 0:
        print("mutant does not compile:", r.stderr[:500]); sys.exit(2)
    env = dict(os.environ, VERIF_REPO=d + "/repo", VERIF_EVIDENCE_DIR=d + "/evidence")
    r = subprocess.run(["/verif/check", prop], env=env, capture_output=True, text=True)
    print(r.stdout[-3000:])
    print("exit", r.returncode)
finally:
    shutil.rmtree(d, ignore_errors=True)
