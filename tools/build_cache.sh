#!/bin/bash
# Re-proves every obligation of every contract WITHOUT the cache and records the query hashes of the `unsat` answers.
# Run after any change to the engine, the prelude, the contracts or /repo. The quick tier then only re-solves
# queries whose text changed (i.e. the functions a code change touches); the thorough tier never uses the cache.
set -e
cd "$(dirname "$0")/.."
export GOFLAGS=-mod=mod GOPROXY=off GOSUMDB=off GOTOOLCHAIN=local
rm -f proofcache/unsat.new
d=$(mktemp -d)
./bin/slimvc verify -repo ${VERIF_REPO:-/repo} -smtdir $d -quickms 10000 -slow 120 -cacheout proofcache/unsat.new "$@" | tail -15
sort -u proofcache/unsat.new > proofcache/unsat.txt
rm -f proofcache/unsat.new
rm -rf $d
wc -l proofcache/unsat.txt
