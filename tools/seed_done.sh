#!/bin/bash
# seed_done.sh <seed dir name under /tmp/seed_out, e.g. C05b> <seed id, e.g. C05-b1> <property> <demo pkg dir> [other props]
# confirm in a scratch worktree, record under seeded/<id>/, remove the agent's worktree.
src=$1; id=$2; prop=$3; pkg=$4; shift 4
cd "$(dirname "$0")/.."
bash tools/confirm_seed.sh $src /tmp/seed_out/$src $pkg 2>&1 | tail -1
cp /tmp/confirm_$src.log /tmp/confirm_${id%%-*}.log 2>/dev/null
python3 tools/record_seed.py $id /tmp/seed_out/$src $prop $pkg "$@" 2>&1 | tail -1
git -C /repo worktree remove --force /tmp/wt_$src 2>/dev/null
git -C /repo worktree prune
