#!/usr/bin/env python3
"""try_seed.py <patch.diff> <prop> [<prop>...] : apply a patch to a scratch copy of /repo and run the quick checks against it."""
import sys, os, subprocess, shutil, tempfile
patch = os.path.abspath(sys.argv[1]); props = sys.argv[2:]
d = tempfile.mkdtemp(prefix="seedtry.")
try:
    subprocess.run(["rsync", "-a", "--exclude", ".git", "/repo/", d + "/repo/"], check=True)
    r = subprocess.run(["patch", "-p1", "-s", "-i", patch], cwd=d + "/repo", capture_output=True, text=True)
    if r.returncode != 0:
        print("patch failed", r.stdout, r.stderr); sys.exit(2)
    env = dict(os.environ, GOFLAGS="-mod=mod", GOPROXY="off", GOSUMDB="off")
    r = subprocess.run(["go", "build", "./..."], cwd=d + "/repo", capture_output=True, text=True, env=env)
    if r.returncode != 0:
        print("does not compile:", r.stderr[:500]); sys.exit(2)
    for p in props:
        r = subprocess.run(["/verif/check", p], env=dict(os.environ, VERIF_REPO=d + "/repo", VERIF_EVIDENCE_DIR=d + "/evidence"), capture_output=True, text=True)
        lines = [l for l in r.stdout.splitlines() if not l.startswith("UNDECIDED")]
        print(f"== {p}: exit {r.returncode}")
        print("\n".join(lines[-6:])[:1500])
finally:
    shutil.rmtree(d, ignore_errors=True)
