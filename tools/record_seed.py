#!/usr/bin/env python3
"""record_seed.py <seed id> <source dir with patch.diff, seed_demo_test.go, notes.md> <property> <demo pkg> [other props to try...]
Copies the seeded change to seeded/<id>/, runs the quick checks of the listed properties against a scratch copy with the
patch applied, and writes meta.json (what it breaks, what it needs, what was run, which check caught it)."""
import sys, os, json, subprocess, shutil, tempfile, re
sid, src, prop, pkg = sys.argv[1:5]; others = sys.argv[5:]
dst = f"/verif/seeded/{sid}"
os.makedirs(dst, exist_ok=True)
for f in ("patch.diff", "seed_demo_test.go", "notes.md"):
    if os.path.exists(os.path.join(src, f)):
        shutil.copy(os.path.join(src, f), dst)
confirm = None
lg = f"/tmp/confirm_{sid.split('-')[0]}.log"
if os.path.exists(lg):
    for l in open(lg):
        if l.startswith("RESULT"):
            confirm = l.strip()
d = tempfile.mkdtemp(prefix="seedrec.")
results = {}
try:
    subprocess.run(["rsync", "-a", "--exclude", ".git", "/repo/", d + "/repo/"], check=True)
    subprocess.run(["patch", "-p1", "-s", "-i", os.path.join(dst, "patch.diff")], cwd=d + "/repo", check=True)
    for p in [prop] + others:
        r = subprocess.run(["/verif/check", p], env=dict(os.environ, VERIF_REPO=d + "/repo", VERIF_EVIDENCE_DIR=d + "/evidence"), capture_output=True, text=True)
        failed = [l.strip()[8:] for l in r.stdout.splitlines() if l.strip().startswith("failed:")]
        kinds = sorted(set(("bounded" if f.startswith("bounded:") else ("frame" if "/frame#" in f or "/escape#" in f or "/fresh#" in f else "smt")) for f in failed))
        results[p] = {"exit": r.returncode, "caught": r.returncode == 1, "by_backend": kinds, "first_failures": [f[:220] for f in failed[:4]]}
finally:
    shutil.rmtree(d, ignore_errors=True)
notes = open(os.path.join(dst, "notes.md")).read() if os.path.exists(os.path.join(dst, "notes.md")) else ""
meta = {"id": sid, "breaks_property": prop, "demo_package_dir": pkg,
        "origin": "written by a fresh sub-agent that was given only the property text and a scratch worktree of /repo",
        "needs_to_manifest": notes[:1500],
        "confirmed_by_me": confirm or "see notes.md",
        "confirm_procedure": "tools/confirm_seed.sh: scratch git worktree of /repo; go build; demo test without the change (must pass) and with it (must fail); the repository's own suite with the change (must pass); worktree removed",
        "checks_run": results}
json.dump(meta, open(os.path.join(dst, "meta.json"), "w"), indent=1)
print(json.dumps({k: (v["caught"], v["by_backend"]) for k, v in results.items()}))
