#!/usr/bin/env python3
"""vacuity.py <contract file under /repo> <func key e.g. 'trie.(*SlimTrie).getGEPath'> <contract header line text> <source fragment>...
Development-time vacuity test, stronger than the built-in probes: for each source fragment, a scratch copy of /repo gets
`before "<fragment>" assert false` added to the function's contract; the assertion must NOT be discharged (a discharged
`false` means the point is unreachable under the contracts, i.e. everything proved behind it is vacuous)."""
import sys, os, subprocess, tempfile, shutil
cfile, key, header = sys.argv[1:4]
frags = sys.argv[4:]
bad = 0
for fr in frags:
    d = tempfile.mkdtemp(prefix="vac.")
    try:
        subprocess.run(["rsync", "-a", "--exclude", ".git", "/repo/", d + "/repo/"], check=True)
        p = os.path.join(d, "repo", cfile)
        s = open(p).read()
        assert header in s, header
        s = s.replace(header, header + '\n//@   before "%s" assert false' % fr, 1)
        open(p, "w").write(s)
        r = subprocess.run(["/verif/bin/slimvc", "verify", "-repo", d + "/repo", "-func", key, "-quickms", "10000", "-slow", "40", "-v"], capture_output=True, text=True)
        lines = [l for l in r.stdout.splitlines() if "ghost assertion: false" in l]
        st = lines[0].split()[0] if lines else "NO-SUCH-POINT"
        print(("ok  " if st == "FAILED" else "BAD ") + st, fr)
        if st != "FAILED":
            bad += 1
    finally:
        shutil.rmtree(d, ignore_errors=True)
sys.exit(1 if bad else 0)
