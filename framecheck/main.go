// framecheck — frame / ownership ("region") checker for openacid/slim.
//
//	framecheck -repo <dir> -prop C11|C20 -out <file.json> [-v]
//
// See README.md for the analysis; DESIGN.md §6.2 for its role.
package main

import (
	"encoding/json"
	"flag"
	"fmt"
	"os"
	"sort"
	"time"
)

type output struct {
	Property   string         `json:"property"`
	Repo       string         `json:"repo"`
	Roots      []string       `json:"roots"`
	StaleRoots []string       `json:"stale_roots"`
	Functions  int            `json:"functions_analysed"`
	Counts     map[string]int `json:"counts"`
	Obligs     []*Obligation  `json:"obligations"`
	Assumed    []string       `json:"assumed_used"`
	AssumedSrc string         `json:"assumed_frames_file"`
	Undecided  []string       `json:"undecided"`
	Wall       float64        `json:"wall_s"`
}

func main() {
	repo := flag.String("repo", "/repo", "root of the openacid/slim working tree to analyse")
	prop := flag.String("prop", "", "property to check: C11 or C20")
	out := flag.String("out", "", "write the JSON report to this file")
	assumed := flag.String("assumed", "", "assumed-frames file (default: the embedded assumed_frames.json)")
	verbose := flag.Bool("v", false, "verbose")
	flag.Parse()
	os.Exit(run(*repo, *prop, *out, *assumed, *verbose))
}

func run(repo, prop, outFile, assumedFile string, verbose bool) (code int) {
	start := time.Now()
	defer func() {
		if r := recover(); r != nil {
			fmt.Fprintf(os.Stderr, "framecheck: internal error: %v\n", r)
			if verbose {
				panic(r)
			}
			code = 2
		}
	}()
	specs := rootsFor(prop)
	if len(specs) == 0 {
		fmt.Fprintln(os.Stderr, "framecheck: -prop must be C11 or C20")
		return 2
	}
	db, err := loadFrames(assumedFile)
	if err != nil {
		fmt.Fprintln(os.Stderr, "framecheck:", err)
		return 2
	}
	a, err := load(repo)
	if err != nil {
		fmt.Fprintln(os.Stderr, "framecheck: cannot load", repo+":", err)
		return 2
	}
	a.db = db
	a.verbose = verbose
	if verbose {
		fmt.Fprintf(os.Stderr, "loaded in %.1fs\n", time.Since(start).Seconds())
	}
	c := &checker{a: a, obls: map[string]*Obligation{}, used: map[string]struct{}{}}
	for _, r := range specs {
		fn := a.resolve(r)
		if fn == nil {
			c.stale = append(c.stale, r.display())
			continue
		}
		t0 := time.Now()
		c.checkRoot(r, fn)
		if verbose {
			s := a.summaryOf(fn)
			fmt.Fprintf(os.Stderr, "root %-28s %4d functions  %5d objects  %.2fs\n", r.display(), len(s.reached), len(s.objs), time.Since(t0).Seconds())
		}
	}
	obls := c.finish()
	o := output{Property: prop, Repo: repo, Roots: c.roots, StaleRoots: c.stale, Functions: len(a.analysed),
		Counts: map[string]int{}, Obligs: obls, Assumed: []string{}, AssumedSrc: db.source, Undecided: []string{}}
	if o.StaleRoots == nil {
		o.StaleRoots = []string{}
	}
	for k := range c.used {
		o.Assumed = append(o.Assumed, k)
	}
	sort.Strings(o.Assumed)
	failed := 0
	for _, ob := range obls {
		o.Counts[ob.Status]++
		o.Counts["kind:"+ob.Kind]++
		switch ob.Status {
		case stFailed:
			failed++
			fmt.Printf("FRAME-FAIL %s %s %s\n", ob.Name, ob.Pos, ob.Detail)
		case stUndecided:
			o.Undecided = append(o.Undecided, ob.Name+": "+ob.Detail)
			fmt.Printf("FRAME-UNDECIDED %s %s %s\n", ob.Name, ob.Pos, ob.Detail)
		}
	}
	o.Wall = float64(time.Since(start).Milliseconds()) / 1000
	if outFile != "" {
		b, _ := json.MarshalIndent(o, "", " ")
		if err := os.WriteFile(outFile, append(b, '\n'), 0o644); err != nil {
			fmt.Fprintln(os.Stderr, "framecheck:", err)
			return 2
		}
	}
	for _, s := range c.stale {
		fmt.Printf("FRAME-STALE-ROOT %s\n", s)
	}
	fmt.Printf("framecheck %s: roots=%d functions=%d obligations=%d discharged=%d failed=%d undecided=%d assumed_used=%d wall=%.1fs\n",
		prop, len(c.roots), o.Functions, len(obls), o.Counts[stDischarged], failed, o.Counts[stUndecided], len(o.Assumed), o.Wall)
	if len(c.roots) == 0 || len(obls) == 0 {
		fmt.Fprintln(os.Stderr, "framecheck: vacuous run (no roots resolved or no obligations)")
		return 2
	}
	if failed > 0 {
		return 1
	}
	return 0
}
