package main

// assumed.go — frame summaries that are ASSUMED, not inferred.  They live in
// assumed_frames.json next to the sources (embedded into the binary at build
// time; -assumed overrides).  Every entry that is used in a run is reported.

import (
	_ "embed"
	"encoding/json"
	"fmt"
	"go/types"
	"os"
	"path/filepath"
	"strings"

	"golang.org/x/tools/go/ssa"
)

//go:embed assumed_frames.json
var embeddedFrames []byte

// Frame is one assumed frame summary.  Argument indices count the receiver as 0.
type Frame struct {
	// Match is an exact ssa function name ("(*bytes.Buffer).Write"), a package
	// pattern ("pkg:fmt" matches fmt and fmt/...), or an interface method
	// ("iface:io.Writer.Write").
	Match  string `json:"match"`
	Assume string `json:"assume"` // human-readable statement, reported when used

	Writes      []int    `json:"writes,omitempty"`         // the direct pointee of these arguments may be written
	WritesDeep  []int    `json:"writes_deep,omitempty"`    // anything reachable from these arguments may be written
	RecvWrites  bool     `json:"recv_writes,omitempty"`    // (pkg entries) pointer-receiver methods may write their receiver, deep
	Result      string   `json:"result,omitempty"`         // "fresh" (default) or "none"
	Aliases     []int    `json:"result_aliases,omitempty"` // result may point into anything reachable from these arguments
	AliasesAll  bool     `json:"result_aliases_all,omitempty"`
	Holds       []int    `json:"result_holds,omitempty"`  // result is fresh but its contents may point into these arguments
	Stores      [][2]int `json:"stores,omitempty"`        // [dst,src]: pointers into src may be stored in the pointee of dst
	StoresFresh []int    `json:"stores_fresh,omitempty"`  // freshly allocated memory is stored into anything reachable from these arguments
	Calls       []int    `json:"calls,omitempty"`         // these function-valued arguments are invoked
	CallsMeths  []int    `json:"calls_methods,omitempty"` // the interface methods of these arguments are invoked
	AlsoCHA     bool     `json:"also_cha,omitempty"`      // (iface entries) in-program implementations are analysed as well
}

type frameDB struct {
	exact  map[string]*Frame
	pkgs   []*Frame
	iface  map[string]*Frame
	source string
}

// loadFrames reads the assumed frames: the -assumed file if given, else
// ../framecheck/assumed_frames.json relative to the executable (so that editing
// the data file takes effect without rebuilding), else the embedded copy.
func loadFrames(path string) (*frameDB, error) {
	data, src := embeddedFrames, "embedded assumed_frames.json"
	if path == "" {
		if exe, err := os.Executable(); err == nil {
			cand := filepath.Join(filepath.Dir(exe), "..", "framecheck", "assumed_frames.json")
			if _, err := os.Stat(cand); err == nil {
				path = cand
			}
		}
	}
	if path != "" {
		b, err := os.ReadFile(path)
		if err != nil {
			return nil, err
		}
		data, src = b, filepath.Clean(path)
	}
	var file struct {
		Frames []*Frame `json:"frames"`
	}
	if err := json.Unmarshal(data, &file); err != nil {
		return nil, fmt.Errorf("assumed frames: %v", err)
	}
	db := &frameDB{exact: map[string]*Frame{}, iface: map[string]*Frame{}, source: src}
	for _, f := range file.Frames {
		switch {
		case strings.HasPrefix(f.Match, "pkg:"):
			db.pkgs = append(db.pkgs, f)
		case strings.HasPrefix(f.Match, "iface:"):
			db.iface[strings.TrimPrefix(f.Match, "iface:")] = f
		default:
			db.exact[f.Match] = f
		}
	}
	return db, nil
}

func fnPkgPath(fn *ssa.Function) string {
	if fn.Pkg != nil {
		return fn.Pkg.Pkg.Path()
	}
	if o := fn.Object(); o != nil && o.Pkg() != nil {
		return o.Pkg().Path()
	}
	if fn.Parent() != nil {
		return fnPkgPath(fn.Parent())
	}
	return ""
}

func fnName(fn *ssa.Function) string {
	n := fn.String()
	if i := strings.Index(n, "["); i >= 0 && strings.HasSuffix(n, "]") {
		n = n[:i] // generic instance
	}
	return n
}

// lookup returns the assumed frame of fn (exact entry first, then package).
func (db *frameDB) lookup(fn *ssa.Function) (*Frame, string) {
	name := fnName(fn)
	if f, ok := db.exact[name]; ok {
		return f, name + ": " + f.Assume
	}
	path := fnPkgPath(fn)
	if path == "" {
		return nil, ""
	}
	for _, f := range db.pkgs {
		p := strings.TrimPrefix(f.Match, "pkg:")
		if path == p || strings.HasPrefix(path, p+"/") {
			return f, name + " (" + f.Match + "): " + f.Assume
		}
	}
	return nil, ""
}

// lookupIface returns the assumed frame of an interface method call.
func (db *frameDB) lookupIface(recv types.Type, m *types.Func) (*Frame, string) {
	key := ifaceName(recv) + "." + m.Name()
	if f, ok := db.iface[key]; ok {
		return f, "interface method " + key + ": " + f.Assume
	}
	return nil, ""
}

func ifaceName(t types.Type) string {
	if n, ok := t.(*types.Named); ok {
		if n.Obj().Pkg() == nil {
			return n.Obj().Name() // error
		}
		return n.Obj().Pkg().Path() + "." + n.Obj().Name()
	}
	if a, ok := t.(*types.Alias); ok {
		return ifaceName(types.Unalias(a))
	}
	return t.String()
}
