package main

// analysis.go — program loading, instruction sites, class-hierarchy analysis and
// the bottom-up (on-demand, cycle-aware) computation of function summaries.

import (
	"fmt"
	"go/token"
	"go/types"
	"path/filepath"
	"sort"
	"strings"

	"golang.org/x/tools/go/packages"
	"golang.org/x/tools/go/ssa"
	"golang.org/x/tools/go/ssa/ssautil"
)

// Site identifies one instruction that carries an obligation.
type Site struct {
	Fn    *ssa.Function
	Instr ssa.Instruction
	Idx   int // index of the instruction in the function (SSA order)
	Store int // ordinal among Store/MapUpdate/Send instructions, or -1
	Call  int // ordinal among call instructions, or -1
	Ret   int // ordinal among Return instructions, or -1
	Esc   int // ordinal among potential escape points (stores, calls, returns, closures)
}

func (x *Site) less(y *Site) bool {
	if x.Fn != y.Fn {
		return x.Fn.String() < y.Fn.String()
	}
	return x.Idx < y.Idx
}

func (x *Site) key() string { return fmt.Sprintf("%s@%d", x.Fn.String(), x.Idx) }

type analysis struct {
	repo    string
	prog    *ssa.Program
	fset    *token.FileSet
	db      *frameDB
	sites   map[ssa.Instruction]*Site
	fnSites map[*ssa.Function][]*Site

	// summaries
	sums    map[*ssa.Function]*sumEntry
	stack   []*ssa.Function
	lowlink int
	prov    []*ssa.Function // provisional (cycle member) summaries of the current head iteration

	// class hierarchy
	named    []types.Type
	chaCache map[string][]*ssa.Function

	// site bookkeeping shared by all groups
	callNote map[*Site]string              // why a call instruction carries a frame#call obligation
	local    map[*Site]map[string]struct{} // targets of a write, in the terms of its own function
	analysed map[*ssa.Function]struct{}

	verbose bool
}

type sumEntry struct {
	sum   *state
	state int // 0 none, 1 in progress, 2 done, 3 provisional
	idx   int
}

func load(repo string) (*analysis, error) {
	cfg := &packages.Config{Mode: packages.LoadAllSyntax, Dir: repo, BuildFlags: []string{"-tags=verif"}}
	pkgs, err := packages.Load(cfg, "./trie", "./encode", "./array", "./index")
	if err != nil {
		return nil, err
	}
	var errs []string
	packages.Visit(pkgs, nil, func(p *packages.Package) {
		for _, e := range p.Errors {
			errs = append(errs, e.Error())
		}
	})
	if len(errs) > 0 {
		return nil, fmt.Errorf("load errors: %s", strings.Join(errs, "; "))
	}
	prog, _ := ssautil.AllPackages(pkgs, 0)
	prog.Build()
	a := &analysis{repo: repo, prog: prog, fset: prog.Fset,
		sites: map[ssa.Instruction]*Site{}, fnSites: map[*ssa.Function][]*Site{},
		sums: map[*ssa.Function]*sumEntry{}, chaCache: map[string][]*ssa.Function{},
		callNote: map[*Site]string{}, local: map[*Site]map[string]struct{}{},
		analysed: map[*ssa.Function]struct{}{}}
	for _, p := range prog.AllPackages() {
		for _, m := range p.Members {
			if t, ok := m.(*ssa.Type); ok {
				a.named = append(a.named, t.Type())
			}
		}
	}
	sort.Slice(a.named, func(i, j int) bool { return a.named[i].String() < a.named[j].String() })
	return a, nil
}

// indexSites numbers the instructions of fn.
func (a *analysis) indexSites(fn *ssa.Function) {
	if _, ok := a.fnSites[fn]; ok {
		return
	}
	var list []*Site
	idx, st, ca, re, es := 0, 0, 0, 0, 0
	for _, b := range fn.Blocks {
		for _, in := range b.Instrs {
			s := &Site{Fn: fn, Instr: in, Idx: idx, Store: -1, Call: -1, Ret: -1, Esc: -1}
			idx++
			switch in.(type) {
			case *ssa.Store, *ssa.MapUpdate, *ssa.Send:
				s.Store, s.Esc = st, es
				st++
				es++
			case ssa.CallInstruction:
				s.Call, s.Esc = ca, es
				ca++
				es++
			case *ssa.Return:
				s.Ret, s.Esc = re, es
				re++
				es++
			case *ssa.MakeClosure:
				s.Esc = es
				es++
			}
			a.sites[in] = s
			list = append(list, s)
		}
	}
	a.fnSites[fn] = list
}

func (a *analysis) site(in ssa.Instruction) *Site {
	if s, ok := a.sites[in]; ok {
		return s
	}
	a.indexSites(in.Parent())
	return a.sites[in]
}

// pos renders the source position of a site relative to the repository.
func (a *analysis) pos(s *Site) string {
	p := s.Instr.Pos()
	if !p.IsValid() {
		// nearest earlier instruction with a position, else the (enclosing) function
		list := a.fnSites[s.Fn]
		for i := s.Idx; i >= 0 && !p.IsValid(); i-- {
			p = list[i].Instr.Pos()
		}
		for f := s.Fn; !p.IsValid() && f != nil; f = f.Parent() {
			p = f.Pos()
		}
	}
	return a.posString(p)
}

func (a *analysis) posString(p token.Pos) string {
	if !p.IsValid() {
		return "-"
	}
	ps := a.fset.Position(p)
	file := ps.Filename
	if abs, err := filepath.Abs(a.repo); err == nil {
		if rel, err := filepath.Rel(abs, file); err == nil && !strings.HasPrefix(rel, "..") {
			file = rel
		} else if i := strings.Index(file, "/pkg/mod/"); i >= 0 {
			file = file[i+len("/pkg/mod/"):]
		} else if i := strings.Index(file, "/src/"); i >= 0 {
			file = file[i+len("/src/"):]
		}
	}
	return fmt.Sprintf("%s:%d", file, ps.Line)
}

// fnLabel is the obligation-name prefix of a function, e.g. trie.(*SlimTrie).getNode
func fnLabel(fn *ssa.Function) string {
	n := fn.String()
	// (*github.com/openacid/slim/trie.SlimTrie).getNode -> trie.(*SlimTrie).getNode
	star := ""
	rest := n
	if strings.HasPrefix(n, "(") {
		end := strings.Index(n, ")")
		recv := n[1:end]
		rest = n[end+1:]
		if strings.HasPrefix(recv, "*") {
			star = "*"
			recv = recv[1:]
		}
		pkg, typ := splitPkg(recv)
		return lastElem(pkg) + ".(" + star + typ + ")" + rest
	}
	pkg, name := splitPkg(rest)
	return lastElem(pkg) + "." + name
}

func splitPkg(q string) (string, string) {
	slash := strings.LastIndex(q, "/")
	dot := strings.Index(q[slash+1:], ".")
	if dot < 0 {
		return "", q
	}
	return q[:slash+1+dot], q[slash+1+dot+1:]
}

func lastElem(p string) string {
	if i := strings.LastIndex(p, "/"); i >= 0 {
		return p[i+1:]
	}
	return p
}

// ---------------------------------------------------------------------------
// class-hierarchy analysis

// implementations returns the concrete methods an interface method call may
// dispatch to, over all named types of the loaded program.
func (a *analysis) implementations(recv types.Type, m *types.Func) []*ssa.Function {
	key := recv.String() + "." + m.Name()
	if r, ok := a.chaCache[key]; ok {
		return r
	}
	var out []*ssa.Function
	iface, _ := recv.Underlying().(*types.Interface)
	if iface != nil {
		for _, t := range a.named {
			if types.IsInterface(t) {
				continue
			}
			if n, ok := t.(*types.Named); ok && n.TypeParams().Len() > 0 {
				continue
			}
			var impl types.Type
			if types.Implements(t, iface) {
				impl = t
			} else if pt := types.NewPointer(t); types.Implements(pt, iface) {
				impl = pt
			} else {
				continue
			}
			sel := a.prog.MethodSets.MethodSet(impl).Lookup(m.Pkg(), m.Name())
			if sel == nil {
				continue
			}
			if f := a.prog.MethodValue(sel); f != nil {
				out = append(out, f)
			}
		}
	}
	a.chaCache[key] = out
	return out
}

// ---------------------------------------------------------------------------
// summaries

const inf = 1 << 30

// summaryOf returns the summary (final analysis state) of the group of fn.
// Recursion is handled by iterating the head of each cycle to a fixpoint; the
// members of a cycle are recomputed in every iteration of their head.
func (a *analysis) summaryOf(fn *ssa.Function) *state {
	e := a.sums[fn]
	if e == nil {
		e = &sumEntry{}
		a.sums[fn] = e
	}
	switch e.state {
	case 2, 3:
		return e.sum
	case 1:
		if e.idx < a.lowlink {
			a.lowlink = e.idx
		}
		return e.sum
	}
	e.state = 1
	e.idx = len(a.stack)
	e.sum = nil
	a.stack = append(a.stack, fn)
	saved := a.lowlink
	provStart := len(a.prov)
	for iter := 0; ; iter++ {
		a.lowlink = inf
		s := a.analyze(fn)
		low := a.lowlink
		old := e.sum
		e.sum = s
		if iter > 100 {
			panic("summary of " + fn.String() + " does not reach a fixpoint")
		}
		if low >= inf {
			// no dependence on an unfinished summary
			a.lowlink = saved
			break
		}
		if old != nil && old.digest == s.digest {
			if low < e.idx {
				// member of an enclosing cycle: provisional until that head is stable
				a.stack = a.stack[:len(a.stack)-1]
				e.state = 3
				a.prov = append(a.prov, fn)
				if low < saved {
					saved = low
				}
				a.lowlink = saved
				return e.sum
			}
			a.lowlink = saved
			break
		}
		// not stable: forget provisional members computed in this iteration
		for _, m := range a.prov[provStart:] {
			a.sums[m].state = 0
		}
		a.prov = a.prov[:provStart]
	}
	for _, m := range a.prov[provStart:] {
		a.sums[m].state = 2
	}
	a.prov = a.prov[:provStart]
	a.stack = a.stack[:len(a.stack)-1]
	e.state = 2
	return e.sum
}

// analyze runs the intraprocedural fixpoint on fn and its anonymous functions.
func (a *analysis) analyze(top *ssa.Function) *state {
	s := newState(a, top)
	for _, f := range s.fns {
		a.indexSites(f)
		a.analysed[f] = struct{}{}
	}
	s.initParams(top)
	for iter := 0; ; iter++ {
		if iter > 500 {
			panic("analysis of " + top.String() + " does not reach a fixpoint")
		}
		s.changed = false
		for _, f := range s.fns {
			for _, b := range f.Blocks {
				for _, in := range b.Instrs {
					s.transfer(f, in)
				}
			}
		}
		if !s.changed {
			break
		}
	}
	s.finish()
	return s
}
