package main

// check.go — root specifications for C11 / C20 and the construction of
// obligations from the root-level analysis states.

import (
	"fmt"
	"go/types"
	"sort"
	"strings"

	"golang.org/x/tools/go/ssa"
)

const (
	trieP  = "github.com/openacid/slim/trie"
	indexP = "github.com/openacid/slim/index"
	arrayP = "github.com/openacid/slim/array"
)

// rootSpec states what one root API is allowed to do.
type rootSpec struct {
	pkg, recv, name string // recv "" for package-level functions
	tag             string // e.g. "C16/C20-extra"
	frame           bool   // check write effects
	allowWrite      []int  // parameters whose reachable memory may be written (loader receivers)
	borrowed        []int  // parameters that must neither be written nor retained
	escape          bool   // check retention of borrowed memory
	fresh           []int  // result indices that must be fresh
}

func (r rootSpec) display() string {
	if r.recv != "" && r.pkg != trieP {
		return lastElem(r.pkg) + "." + r.recv + "." + r.name
	}
	if r.pkg != trieP {
		return lastElem(r.pkg) + "." + r.name
	}
	return r.name
}

func rootsFor(prop string) []rootSpec {
	var out []rootSpec
	switch prop {
	case "C11":
		for _, n := range []string{"Get", "GetID", "RangeGet", "Search", "GetI8", "GetI16", "GetI32", "GetI64",
			"ScanFrom", "ScanFromTo", "NewIter", "Stat", "String", "Marshal", "GetVersion", "content"} {
			out = append(out, rootSpec{pkg: trieP, recv: "SlimTrie", name: n, frame: true})
		}
		out = append(out, rootSpec{pkg: trieP, name: "levelsStr", frame: true})
		out = append(out, rootSpec{pkg: indexP, recv: "SlimIndex", name: "Get", frame: true})
		out = append(out, rootSpec{pkg: indexP, recv: "SlimIndex", name: "RangeGet", frame: true})
	case "C20":
		out = append(out, rootSpec{pkg: trieP, name: "NewSlimTrie", frame: true, borrowed: []int{1, 2, 3}, escape: true})
		out = append(out, rootSpec{pkg: trieP, recv: "SlimTrie", name: "Unmarshal", frame: true, allowWrite: []int{0}, borrowed: []int{1}, escape: true})
		out = append(out, rootSpec{pkg: trieP, recv: "SlimTrie", name: "Marshal", frame: true, fresh: []int{0}})
		x := "C16/C20-extra"
		out = append(out, rootSpec{pkg: arrayP, recv: "Base", name: "Init", tag: x, frame: true, allowWrite: []int{0}, borrowed: []int{1, 2}, escape: true})
		out = append(out, rootSpec{pkg: arrayP, recv: "Base", name: "InitIndex", tag: x, frame: true, allowWrite: []int{0}, borrowed: []int{1}, escape: true})
		out = append(out, rootSpec{pkg: arrayP, recv: "Base", name: "InitElts", tag: x, frame: true, allowWrite: []int{0}, borrowed: []int{1}, escape: true})
		for _, n := range []string{"New", "NewU16", "NewU32", "NewU64", "NewI16", "NewI32", "NewI64"} {
			out = append(out, rootSpec{pkg: arrayP, name: n, tag: x, frame: true, borrowed: []int{0, 1}, escape: true})
		}
	}
	return out
}

func (a *analysis) resolve(r rootSpec) *ssa.Function {
	for _, p := range a.prog.AllPackages() {
		if p.Pkg.Path() != r.pkg {
			continue
		}
		if r.recv == "" {
			return p.Func(r.name)
		}
		t := p.Type(r.recv)
		if t == nil {
			return nil
		}
		for _, typ := range []types.Type{types.NewPointer(t.Type()), t.Type()} {
			if sel := a.prog.MethodSets.MethodSet(typ).Lookup(p.Pkg, r.name); sel != nil {
				f := a.prog.MethodValue(sel)
				// skip promoted-method wrappers: report the declared method only
				if f != nil && f.Synthetic == "" {
					return f
				}
			}
		}
	}
	return nil
}

// Obligation is one row of the output.
type Obligation struct {
	Name     string   `json:"name"`
	Kind     string   `json:"kind"`
	Function string   `json:"function"`
	Pos      string   `json:"pos"`
	Status   string   `json:"status"`
	Backend  string   `json:"backend"`
	Detail   string   `json:"detail"`
	Roots    []string `json:"roots"`

	site    *Site
	reasons map[string]struct{}
	rootSet map[string]struct{}
}

const (
	stDischarged = "discharged"
	stUndecided  = "undecided"
	stFailed     = "failed"
)

func worse(a, b string) string {
	rank := map[string]int{stDischarged: 0, stUndecided: 1, stFailed: 2}
	if rank[b] > rank[a] {
		return b
	}
	return a
}

type checker struct {
	a     *analysis
	obls  map[string]*Obligation
	used  map[string]struct{}
	roots []string
	stale []string
}

func (c *checker) obl(site *Site, kind, suffix string) *Obligation {
	name := fnLabel(site.Fn) + "/" + suffix
	o := c.obls[name]
	if o == nil {
		o = &Obligation{Name: name, Kind: kind, Function: fnLabel(site.Fn), Pos: c.a.pos(site),
			Status: stDischarged, Backend: "region-checker", site: site, reasons: map[string]struct{}{}, rootSet: map[string]struct{}{}}
		c.obls[name] = o
	}
	return o
}

func (c *checker) mark(o *Obligation, root, status, reason string) {
	o.rootSet[root] = struct{}{}
	o.Status = worse(o.Status, status)
	if reason != "" {
		o.reasons[reason] = struct{}{}
	}
}

func inInts(xs []int, x int) bool {
	for _, y := range xs {
		if x == y {
			return true
		}
	}
	return false
}

// checkRoot turns the analysis state of one root into obligations.
func (c *checker) checkRoot(r rootSpec, fn *ssa.Function) {
	a := c.a
	s := a.summaryOf(fn)
	root := r.display()
	c.roots = append(c.roots, root)
	for k := range s.used {
		c.used[k] = struct{}{}
	}
	tag := ""
	if r.tag != "" {
		tag = "[" + r.tag + "] "
	}

	// ---- frame obligations: one per write instruction / effectful call in the call tree
	if r.frame {
		var fns []*ssa.Function
		for f := range s.reached {
			fns = append(fns, f)
		}
		sort.Slice(fns, func(i, j int) bool { return fns[i].String() < fns[j].String() })
		for _, f := range fns {
			for _, site := range a.fnSites[f] {
				switch {
				case site.Store >= 0:
					c.mark(c.obl(site, "frame", fmt.Sprintf("frame#store%d", site.Store)), root, stDischarged, "")
				case site.Call >= 0:
					_, unresolved := s.calls[site]
					if a.callNote[site] != "" || unresolved || len(s.writes[site]) > 0 {
						c.mark(c.obl(site, "frame", fmt.Sprintf("frame#call%d", site.Call)), root, stDischarged, "")
					}
				}
			}
		}
		for site, objs := range s.writes {
			suffix := fmt.Sprintf("frame#store%d", site.Store)
			if site.Store < 0 {
				suffix = fmt.Sprintf("frame#call%d", site.Call)
			}
			o := c.obl(site, "frame", suffix)
			for obj := range objs {
				switch {
				case obj.kind == kGlobal:
					c.mark(o, root, stFailed, fmt.Sprintf("%swrites %s (package-level state) when called from %s", tag, obj.desc, root))
				case obj.kind == kParam && obj.owner == fn && inInts(r.allowWrite, obj.param):
					c.mark(o, root, stDischarged, fmt.Sprintf("%s%s: receiver memory of loader %s (allowed)", tag, obj.desc, root))
				case obj.kind == kParam && obj.owner == fn:
					what := "shared"
					if inInts(r.borrowed, obj.param) {
						what = "caller-owned (borrowed)"
					}
					c.mark(o, root, stFailed, fmt.Sprintf("%swrites %s memory: %s of root %s", tag, what, obj.desc, root))
				case obj.kind == kParam:
					c.mark(o, root, stUndecided, fmt.Sprintf("%swrites through %s whose callers are not all visible (root %s)", tag, obj.desc, root))
				case obj.kind == kUnknown:
					why := "target region unknown: the analysis lost track of this pointer"
					if a.callNote[site] != "" {
						why = "effects of this call are unknown"
					}
					c.mark(o, root, stUndecided, fmt.Sprintf("%s%s (root %s)", tag, why, root))
				}
			}
		}
		// calls through function values nobody below the root could resolve
		for site, ce := range s.calls {
			o := c.obl(site, "frame", fmt.Sprintf("frame#call%d", site.Call))
			for l := range ce.targets {
				ob := l.o
				if ob.kind == kParam && ob.owner == fn && len(ob.path) == 1 && !ob.star {
					if _, isFunc := fn.Params[ob.param].Type().Underlying().(*types.Signature); isFunc {
						note := fmt.Sprintf("callback parameter %s of %s: user-supplied function, assumed not to write memory reachable from the receiver", fn.Params[ob.param].Name(), fnLabel(fn))
						c.used[note] = struct{}{}
						c.mark(o, root, stDischarged, "calls user-supplied callback "+ob.desc+" of root "+root+" (assumed frame)")
						continue
					}
				}
				c.mark(o, root, stUndecided, fmt.Sprintf("%scalls a function value the analysis cannot resolve: %s (root %s)", tag, ob.desc, root))
			}
		}
	}

	// ---- escape obligations: nothing borrowed may be retained
	if r.escape {
		borrowed := func(o *Obj) bool {
			return o.kind == kParam && o.owner == fn && len(o.path) > 0 && inInts(r.borrowed, o.param)
		}
		// objects that outlive the call: results, loader receiver, globals
		live := map[*Obj]bool{}
		var work []*Obj
		push := func(o *Obj) {
			if !live[o] && !borrowed(o) {
				live[o] = true
				work = append(work, o)
			}
		}
		push(s.retObj(fn))
		for _, o := range s.objs {
			if o.kind == kGlobal || (o.kind == kParam && o.owner == fn && inInts(r.allowWrite, o.param) && len(o.path) > 0) {
				push(o)
			}
		}
		type bad struct {
			site   *Site
			status string
			why    string
		}
		var bads []bad
		for len(work) > 0 {
			o := work[len(work)-1]
			work = work[:len(work)-1]
			for f, ts := range s.cont[o] {
				for t := range ts {
					src := Loc{o, f}
					site := s.origin[[2]Loc{src, t}]
					switch {
					case borrowed(t.o):
						bads = append(bads, bad{site, stFailed, fmt.Sprintf("%sretains caller-owned memory: %s is stored in %s, which outlives %s", tag, t.o.desc, src, root)})
					case t.o.kind == kUnknown && o != s.unknown:
						bads = append(bads, bad{site, stUndecided, fmt.Sprintf("%sstores a value of unknown region in %s, which outlives %s", tag, src, root)})
					}
					push(t.o)
				}
			}
		}
		// every potential escape point of the call tree is an obligation
		for f := range s.reached {
			for _, site := range a.fnSites[f] {
				if site.Esc < 0 || !c.escapePoint(site, fn) {
					continue
				}
				c.mark(c.obl(site, "escape", fmt.Sprintf("escape#%d", site.Esc)), root, stDischarged, "")
			}
		}
		for _, b := range bads {
			if b.site == nil {
				// edge without a recorded origin: attribute to the root's first return
				for _, site := range a.fnSites[fn] {
					if site.Ret >= 0 {
						b.site = site
						break
					}
				}
			}
			c.mark(c.obl(b.site, "escape", fmt.Sprintf("escape#%d", b.site.Esc)), root, b.status, b.why)
		}
	}

	// ---- fresh results
	if len(r.fresh) > 0 {
		for _, site := range a.fnSites[fn] {
			ret, ok := site.Instr.(*ssa.Return)
			if !ok {
				continue
			}
			o := c.obl(site, "fresh", fmt.Sprintf("fresh#result%d", site.Ret))
			c.mark(o, root, stDischarged, "")
			for _, i := range r.fresh {
				if i >= len(ret.Results) {
					continue
				}
				v := ret.Results[i]
				set := s.val(v)
				if !isPtrLike(v.Type()) {
					set = nil
					for _, q := range leaves(v.Type()) {
						for l := range s.derefAll(s.val(v), q) {
							if set == nil {
								set = LocSet{}
							}
							set[l] = struct{}{}
						}
					}
				}
				for l := range s.reach(set) {
					switch l.o.kind {
					case kParam:
						c.mark(o, root, stFailed, fmt.Sprintf("result %d of %s aliases %s (not fresh)", i, root, l.o.desc))
					case kGlobal:
						c.mark(o, root, stFailed, fmt.Sprintf("result %d of %s aliases %s (not fresh)", i, root, l.o.desc))
					case kUnknown:
						c.mark(o, root, stUndecided, fmt.Sprintf("result %d of %s may alias memory of unknown region", i, root))
					}
				}
			}
		}
	}
}

// escapePoint reports whether the instruction at site can make a pointer
// outlive the call: a store of a pointer-carrying value, an effectful call, a
// closure creation, or a return of the root itself.
func (c *checker) escapePoint(site *Site, root *ssa.Function) bool {
	switch x := site.Instr.(type) {
	case *ssa.Store:
		return hasPtr(x.Val.Type())
	case *ssa.MapUpdate:
		return hasPtr(x.Value.Type()) || hasPtr(x.Key.Type())
	case *ssa.Send:
		return hasPtr(x.X.Type())
	case *ssa.MakeClosure:
		return len(x.Bindings) > 0
	case *ssa.Return:
		if site.Fn != root {
			return false
		}
		for _, v := range x.Results {
			if hasPtr(v.Type()) {
				return true
			}
		}
		return false
	case ssa.CallInstruction:
		return c.a.callNote[site] != ""
	}
	return false
}

func (c *checker) finish() []*Obligation {
	var out []*Obligation
	for _, o := range c.obls {
		for r := range o.rootSet {
			o.Roots = append(o.Roots, r)
		}
		sort.Strings(o.Roots)
		var rs []string
		for r := range o.reasons {
			rs = append(rs, r)
		}
		sort.Strings(rs)
		o.Detail = c.detail(o, rs)
		out = append(out, o)
	}
	sort.Slice(out, func(i, j int) bool { return natLess(out[i].Name, out[j].Name) })
	return out
}

func (c *checker) detail(o *Obligation, reasons []string) string {
	site := o.site
	var parts []string
	if site != nil {
		var tg []string
		for t := range c.a.local[site] {
			tg = append(tg, t)
		}
		sort.Strings(tg)
		if len(tg) > 6 {
			tg = append(tg[:6], fmt.Sprintf("... (%d more)", len(tg)-6))
		}
		if len(tg) > 0 {
			parts = append(parts, "target region: "+strings.Join(tg, " | "))
		} else if o.Kind == "frame" && site.Store >= 0 {
			parts = append(parts, "target region: none (nil or unreachable)")
		}
		if n := c.a.callNote[site]; n != "" {
			parts = append(parts, n)
		}
	}
	switch o.Status {
	case stDischarged:
		if o.Kind == "frame" {
			parts = append(parts, fmt.Sprintf("fresh (or allowed) in every context from roots %s", strings.Join(o.Roots, ",")))
		} else if o.Kind == "escape" {
			parts = append(parts, "stores nothing borrowed into memory that outlives the call")
		} else {
			parts = append(parts, "result is freshly allocated in this call tree")
		}
	}
	if len(reasons) > 4 {
		reasons = append(reasons[:4], fmt.Sprintf("... (%d more)", len(reasons)-4))
	}
	parts = append(parts, reasons...)
	return strings.Join(parts, "; ")
}

// natLess orders names so that #store2 < #store10.
func natLess(a, b string) bool {
	i, j := 0, 0
	for i < len(a) && j < len(b) {
		if isDigit(a[i]) && isDigit(b[j]) {
			si, sj := i, j
			for i < len(a) && isDigit(a[i]) {
				i++
			}
			for j < len(b) && isDigit(b[j]) {
				j++
			}
			na, nb := strings.TrimLeft(a[si:i], "0"), strings.TrimLeft(b[sj:j], "0")
			if len(na) != len(nb) {
				return len(na) < len(nb)
			}
			if na != nb {
				return na < nb
			}
			continue
		}
		if a[i] != b[j] {
			return a[i] < b[j]
		}
		i++
		j++
	}
	return len(a)-i < len(b)-j
}

func isDigit(c byte) bool { return c >= '0' && c <= '9' }
