package main

// region.go — the abstract memory model of the region checker.
//
// An *Obj is an abstract memory object (an allocation unit).  A Loc is a
// position inside an object (object + dotted field path).  The analysis keeps,
// per function group, a flow-insensitive, field-sensitive points-to graph:
//
//	pts  : SSA value      -> set of Loc   (pointees, or "homes" for aggregates)
//	cont : Loc            -> set of Loc   (what the pointer stored there points to)
//
// Objects come in five kinds (the region lattice, see README.md):
//
//	kFresh   allocated during the current activation (by the function, one of
//	         its closures, or a callee)
//	kParam   memory that existed at entry and is reachable from parameter i via
//	         the access path `path` (k-limited; `star` = anything below)
//	kGlobal  a package-level variable and everything reachable from it
//	kFunc    a function value without captured state
//	kUnknown the analysis lost track

import (
	"fmt"
	"go/token"
	"go/types"
	"sort"
	"strings"

	"golang.org/x/tools/go/ssa"
)

type objKind uint8

const (
	kFresh objKind = iota
	kParam
	kGlobal
	kFunc
	kUnknown
)

// maxPath bounds parameter access paths: the root pointee plus k=3 field steps.
const maxPath = 4

// maxDepth bounds the nesting of callee-allocated objects named in a caller.
const maxDepth = 8

type Obj struct {
	key  string
	kind objKind
	desc string
	pos  token.Pos

	// kParam
	owner  *ssa.Function // function whose parameter this is
	param  int
	path   []string // path[0] = pointer leaf inside the parameter value, then one field per dereference
	star   bool     // anything reachable from P(param,path)
	parent *Obj     // P(param, path[:n-1]); for a star object: the non-star object with the same path

	// closures and function values
	fn *ssa.Function

	depth int // kFresh: how many call levels below the current function it was allocated

	// opaque: result of an assumed frame; calling it as a function value is
	// covered by that frame's statement.
	opaque string
}

func (o *Obj) collapsed() bool {
	return o.kind == kGlobal || o.kind == kUnknown || o.kind == kFunc || (o.kind == kParam && o.star)
}

func (o *Obj) String() string { return o.desc }

type Loc struct {
	o *Obj
	f string
}

func join(a, b string) string {
	switch {
	case a == "":
		return b
	case b == "":
		return a
	case a == "*" || b == "*":
		return "*"
	}
	return a + "." + b
}

// sub returns the location of field path q inside l.
func (l Loc) sub(q string) Loc {
	if l.o.collapsed() {
		return Loc{l.o, ""}
	}
	return Loc{l.o, join(l.f, q)}
}

func (l Loc) String() string {
	if l.f == "" {
		return l.o.desc
	}
	return l.o.desc + "." + l.f
}

type LocSet map[Loc]struct{}

func (s LocSet) sorted() []Loc {
	out := make([]Loc, 0, len(s))
	for l := range s {
		out = append(out, l)
	}
	sort.Slice(out, func(i, j int) bool {
		if out[i].o.key != out[j].o.key {
			return out[i].o.key < out[j].o.key
		}
		return out[i].f < out[j].f
	})
	return out
}

// ---------------------------------------------------------------------------
// type helpers

var leafCache = map[types.Type][]string{}

func isPtrLike(t types.Type) bool {
	switch u := t.Underlying().(type) {
	case *types.Pointer, *types.Slice, *types.Map, *types.Chan, *types.Signature, *types.Interface:
		return true
	case *types.Basic:
		return u.Kind() == types.UnsafePointer
	}
	if _, ok := t.(*types.TypeParam); ok {
		return true
	}
	return false
}

func isAgg(t types.Type) bool {
	switch t.Underlying().(type) {
	case *types.Struct, *types.Array, *types.Tuple:
		return true
	}
	return false
}

// leaves returns the field paths of all pointer-like leaves inside a value of
// type t ("" when t itself is pointer-like).  Strings are immutable and carry
// no region.  Array elements are collapsed onto the array itself.
func leaves(t types.Type) []string {
	if r, ok := leafCache[t]; ok {
		return r
	}
	var r []string
	if isPtrLike(t) {
		r = []string{""}
	} else {
		switch u := t.Underlying().(type) {
		case *types.Struct:
			for i := 0; i < u.NumFields(); i++ {
				for _, q := range leaves(u.Field(i).Type()) {
					r = append(r, join(u.Field(i).Name(), q))
				}
			}
		case *types.Array:
			r = leaves(u.Elem())
		case *types.Tuple:
			for i := 0; i < u.Len(); i++ {
				for _, q := range leaves(u.At(i).Type()) {
					r = append(r, join(fmt.Sprintf("#%d", i), q))
				}
			}
		}
	}
	leafCache[t] = r
	return r
}

func hasPtr(t types.Type) bool { return len(leaves(t)) > 0 }

// ---------------------------------------------------------------------------
// per-group analysis state

type state struct {
	a   *analysis
	top *ssa.Function
	fns []*ssa.Function // top and its anonymous functions (analysed jointly)
	in  map[*ssa.Function]bool

	objs map[string]*Obj
	pts  map[ssa.Value]LocSet
	cont map[*Obj]map[string]LocSet
	// origin of every points-to edge (for escape attribution)
	origin map[[2]Loc]*Site

	writes  map[*Site]map[*Obj]struct{} // write effects on non-fresh objects
	calls   map[*Site]*callEff          // calls through function values this group cannot resolve
	used    map[string]struct{}         // assumed frames used (transitively)
	reached map[*ssa.Function]struct{}  // functions whose effects are included (transitively)
	escArgs map[*ssa.Function]bool      // anon funcs whose closure escapes direct-call use

	unknown *Obj
	changed bool

	// the externally visible part of the final graph (the summary proper)
	visEdges  []visEdge
	visWrites []visWrite
	visCalls  []*callEff
	digest    string
}

func newState(a *analysis, top *ssa.Function) *state {
	s := &state{a: a, top: top, in: map[*ssa.Function]bool{},
		objs: map[string]*Obj{}, pts: map[ssa.Value]LocSet{}, cont: map[*Obj]map[string]LocSet{},
		origin: map[[2]Loc]*Site{}, writes: map[*Site]map[*Obj]struct{}{}, calls: map[*Site]*callEff{},
		used: map[string]struct{}{}, reached: map[*ssa.Function]struct{}{}, escArgs: map[*ssa.Function]bool{}}
	var walk func(f *ssa.Function)
	walk = func(f *ssa.Function) {
		s.fns = append(s.fns, f)
		s.in[f] = true
		s.reached[f] = struct{}{}
		for _, an := range f.AnonFuncs {
			walk(an)
		}
	}
	walk(top)
	s.unknown = s.obj("?", func() *Obj { return &Obj{kind: kUnknown, desc: "unknown"} })
	return s
}

func (s *state) obj(key string, mk func() *Obj) *Obj {
	if o, ok := s.objs[key]; ok {
		return o
	}
	o := mk()
	o.key = key
	s.objs[key] = o
	return o
}

func (s *state) fresh(key, desc string, pos token.Pos) *Obj {
	return s.obj(key, func() *Obj { return &Obj{kind: kFresh, desc: desc, pos: pos} })
}

func (s *state) global(g *ssa.Global) *Obj {
	name := g.String()
	return s.obj("g:"+name, func() *Obj { return &Obj{kind: kGlobal, desc: "global " + shortName(name), pos: g.Pos()} })
}

func (s *state) funcObj(f *ssa.Function) *Obj {
	return s.obj("fn:"+f.String(), func() *Obj { return &Obj{kind: kFunc, desc: "func " + shortName(f.String()), fn: f} })
}

// paramObj returns the symbolic entry object P(owner, i, path[, star]).
func (s *state) paramObj(owner *ssa.Function, i int, path []string, star bool) *Obj {
	key := fmt.Sprintf("p:%s:%d:%d:%s", ownerKey(owner), i, len(path), strings.Join(path, ">"))
	if star {
		key += ">*"
	}
	return s.obj(key, func() *Obj {
		o := &Obj{kind: kParam, owner: owner, param: i, path: append([]string(nil), path...), star: star}
		if star {
			o.parent = s.paramObj(owner, i, path, false)
		} else if len(path) > 0 {
			o.parent = s.paramObj(owner, i, path[:len(path)-1], false)
		}
		o.desc = paramDesc(owner, i, path, star)
		return o
	})
}

func ownerKey(f *ssa.Function) string {
	if f == nil {
		return "?"
	}
	return f.String()
}

func paramDesc(owner *ssa.Function, i int, path []string, star bool) string {
	name := fmt.Sprintf("#%d", i)
	if owner != nil && i < len(owner.Params) {
		name = owner.Params[i].Name()
	}
	d := "param " + name
	for _, p := range path {
		if p != "" {
			d += "." + p
		}
	}
	if star {
		d += ".*"
	}
	if owner != nil && owner.Parent() != nil {
		d += " (of closure " + shortName(owner.String()) + ")"
	}
	return d
}

// child returns the entry object reached by loading field f of parameter object o.
func (s *state) child(o *Obj, f string) *Obj {
	if o.star {
		return o
	}
	if len(o.path) >= maxPath {
		return s.paramObj(o.owner, o.param, o.path, true)
	}
	return s.paramObj(o.owner, o.param, append(append([]string(nil), o.path...), f), false)
}

// deref returns the pointees of the pointer-like value stored at l.
func (s *state) deref(l Loc) LocSet {
	out := LocSet{}
	o := l.o
	if o.collapsed() {
		out[Loc{o, ""}] = struct{}{}
		for t := range s.cont[o][""] {
			out[t] = struct{}{}
		}
		return out
	}
	m := s.cont[o]
	for t := range m[l.f] {
		out[t] = struct{}{}
	}
	if l.f != "*" {
		for t := range m["*"] {
			out[t] = struct{}{}
		}
	}
	if o.kind == kParam {
		out[Loc{s.child(o, l.f), ""}] = struct{}{}
	}
	return out
}

func (s *state) derefAll(set LocSet, q string) LocSet {
	out := LocSet{}
	for l := range set {
		for t := range s.deref(l.sub(q)) {
			out[t] = struct{}{}
		}
	}
	return out
}

// addCont records that the pointer stored at dst may point to every member of tgts.
func (s *state) addCont(dst Loc, tgts LocSet, site *Site) {
	if len(tgts) == 0 {
		return
	}
	if dst.o.collapsed() {
		dst.f = ""
	}
	m := s.cont[dst.o]
	if m == nil {
		m = map[string]LocSet{}
		s.cont[dst.o] = m
	}
	set := m[dst.f]
	if set == nil {
		set = LocSet{}
		m[dst.f] = set
	}
	for t := range tgts {
		if t.o.collapsed() {
			t.f = ""
		}
		if dst.o.collapsed() && t.o == dst.o {
			continue // a collapsed object trivially reaches itself
		}
		if _, ok := set[t]; !ok {
			set[t] = struct{}{}
			s.changed = true
		}
		if site != nil {
			k := [2]Loc{dst, t}
			if old, ok := s.origin[k]; !ok || site.less(old) {
				s.origin[k] = site
			}
		}
	}
}

func (s *state) addPts(v ssa.Value, tgts LocSet) {
	if len(tgts) == 0 {
		return
	}
	set := s.pts[v]
	if set == nil {
		set = LocSet{}
		s.pts[v] = set
	}
	for t := range tgts {
		if t.o.collapsed() {
			t.f = ""
		}
		if _, ok := set[t]; !ok {
			set[t] = struct{}{}
			s.changed = true
		}
	}
}

// copyAgg copies every pointer leaf of a value of type t living at src to dst.
func (s *state) copyAgg(t types.Type, src, dst Loc, site *Site) {
	for _, q := range leaves(t) {
		s.addCont(dst.sub(q), s.deref(src.sub(q)), site)
	}
}

// storeVal stores a value (given by its abstraction set) of type t at dst.
func (s *state) storeVal(t types.Type, dst Loc, set LocSet, site *Site) {
	if isPtrLike(t) {
		s.addCont(dst, set, site)
	} else if isAgg(t) {
		for h := range set {
			s.copyAgg(t, h, dst, site)
		}
	}
}

// loadVal returns the abstraction of a value of type t living at any of homes.
func (s *state) loadVal(t types.Type, homes LocSet) LocSet {
	if isPtrLike(t) {
		return s.derefAll(homes, "")
	}
	if isAgg(t) {
		return homes
	}
	return nil
}

// reach returns every object reachable from set (object granularity), including
// the star object of each parameter object met on the way.
func (s *state) reach(set LocSet) LocSet {
	out := LocSet{}
	var work []*Obj
	push := func(o *Obj) {
		l := Loc{o, ""}
		if _, ok := out[l]; !ok {
			out[l] = struct{}{}
			work = append(work, o)
		}
	}
	for l := range set {
		push(l.o)
	}
	for len(work) > 0 {
		o := work[len(work)-1]
		work = work[:len(work)-1]
		if o.kind == kParam && !o.star && len(o.path) > 0 {
			push(s.paramObj(o.owner, o.param, o.path, true))
		}
		for _, ts := range s.cont[o] {
			for t := range ts {
				push(t.o)
			}
		}
	}
	return out
}

func (s *state) recordWrite(site *Site, o *Obj) {
	if o.kind == kFresh || o.kind == kFunc {
		return
	}
	m := s.writes[site]
	if m == nil {
		m = map[*Obj]struct{}{}
		s.writes[site] = m
	}
	if _, ok := m[o]; !ok {
		m[o] = struct{}{}
		s.changed = true
	}
}

func shortName(n string) string {
	n = strings.ReplaceAll(n, "github.com/openacid/slim/", "")
	n = strings.ReplaceAll(n, "github.com/openacid/", "")
	n = strings.ReplaceAll(n, "github.com/golang/protobuf/", "")
	return n
}
