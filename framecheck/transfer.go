package main

// transfer.go — transfer functions per SSA instruction, call handling, summary
// instantiation (call-site substitution) and assumed frames.

import (
	"fmt"
	"go/types"
	"sort"
	"strings"

	"golang.org/x/tools/go/ssa"
)

// argv is the abstraction of an argument: pointees for pointer-like values,
// homes for aggregates.
type argv struct {
	t   types.Type
	set LocSet
}

// callEff is a call through a function value that the group cannot resolve
// (the value is derived from a parameter): it is resolved by the callers.
type callEff struct {
	site    *Site
	targets LocSet
	args    []argv
}

func (s *state) initParams(f *ssa.Function) {
	for i, p := range f.Params {
		slot := s.paramObj(f, i, nil, false)
		s.addPts(p, s.loadVal(p.Type(), LocSet{Loc{slot, ""}: {}}))
	}
}

// val returns the abstraction of an SSA value.
func (s *state) val(v ssa.Value) LocSet {
	switch x := v.(type) {
	case *ssa.Global:
		return LocSet{Loc{s.global(x), ""}: {}}
	case *ssa.Function:
		return LocSet{Loc{s.funcObj(x), ""}: {}}
	case *ssa.Const, *ssa.Builtin:
		return nil
	}
	return s.pts[v]
}

func (s *state) arg(v ssa.Value) argv { return argv{v.Type(), s.val(v)} }

func (s *state) allocObj(v ssa.Value, what string) *Obj {
	in := v.(ssa.Instruction)
	site := s.a.site(in)
	return s.fresh("f:"+site.key(), fmt.Sprintf("fresh %s @%s", what, s.a.pos(site)), in.Pos())
}

func (s *state) noteLocal(site *Site, set LocSet) {
	m := s.a.local[site]
	if m == nil {
		m = map[string]struct{}{}
		s.a.local[site] = m
	}
	for l := range set {
		m[l.String()] = struct{}{}
	}
}

// write records a write effect of the instruction at site on every target.
func (s *state) write(site *Site, targets LocSet) {
	s.noteLocal(site, targets)
	for l := range targets {
		s.recordWrite(site, l.o)
	}
}

func (s *state) transfer(f *ssa.Function, in ssa.Instruction) {
	switch x := in.(type) {
	case *ssa.Alloc:
		what := "local " + x.Comment
		if x.Heap {
			what = "new " + typeName(x.Type().Underlying().(*types.Pointer).Elem())
			if x.Comment != "" && x.Comment != "complit" && x.Comment != "new" {
				what += " (" + x.Comment + ")"
			}
		}
		s.addPts(x, LocSet{Loc{s.allocObj(x, what), ""}: {}})
	case *ssa.MakeSlice:
		s.addPts(x, LocSet{Loc{s.allocObj(x, "make "+typeName(x.Type())), ""}: {}})
	case *ssa.MakeMap:
		s.addPts(x, LocSet{Loc{s.allocObj(x, "make "+typeName(x.Type())), ""}: {}})
	case *ssa.MakeChan:
		s.addPts(x, LocSet{Loc{s.allocObj(x, "make chan"), ""}: {}})
	case *ssa.FieldAddr:
		name := x.X.Type().Underlying().(*types.Pointer).Elem().Underlying().(*types.Struct).Field(x.Field).Name()
		out := LocSet{}
		for l := range s.val(x.X) {
			out[l.sub(name)] = struct{}{}
		}
		s.addPts(x, out)
	case *ssa.Field:
		name := x.X.Type().Underlying().(*types.Struct).Field(x.Field).Name()
		homes := LocSet{}
		for l := range s.val(x.X) {
			homes[l.sub(name)] = struct{}{}
		}
		s.addPts(x, s.loadVal(x.Type(), homes))
	case *ssa.IndexAddr:
		s.addPts(x, s.val(x.X))
	case *ssa.Index:
		s.addPts(x, s.loadVal(x.Type(), s.val(x.X)))
	case *ssa.Slice:
		s.addPts(x, s.val(x.X))
	case *ssa.UnOp:
		switch x.Op.String() {
		case "*":
			s.addPts(x, s.loadVal(x.Type(), s.val(x.X)))
		case "<-":
			t := x.Type()
			if x.CommaOk {
				t = t.(*types.Tuple).At(0).Type()
			}
			s.lookupLike(x, t, s.val(x.X), x.CommaOk)
		}
	case *ssa.Store:
		site := s.a.site(in)
		tg := s.val(x.Addr)
		s.write(site, tg)
		for l := range tg {
			s.storeVal(x.Val.Type(), l, s.val(x.Val), site)
		}
	case *ssa.MapUpdate:
		site := s.a.site(in)
		tg := s.val(x.Map)
		s.write(site, tg)
		for l := range tg {
			s.storeVal(x.Key.Type(), l.sub("$key"), s.val(x.Key), site)
			s.storeVal(x.Value.Type(), l, s.val(x.Value), site)
		}
	case *ssa.Send:
		site := s.a.site(in)
		tg := s.val(x.Chan)
		s.write(site, tg)
		for l := range tg {
			s.storeVal(x.X.Type(), l, s.val(x.X), site)
		}
	case *ssa.Lookup:
		if _, ok := x.X.Type().Underlying().(*types.Map); !ok {
			return // string index
		}
		s.lookupLike(x, x.X.Type().Underlying().(*types.Map).Elem(), s.val(x.X), x.CommaOk)
	case *ssa.Range:
		s.addPts(x, s.val(x.X)) // the iterator stands for the collection
	case *ssa.Next:
		if x.IsString {
			return
		}
		rng, _ := x.Iter.(*ssa.Range)
		if rng == nil {
			return
		}
		mt, _ := rng.X.Type().Underlying().(*types.Map)
		if mt == nil {
			return
		}
		// tuple (ok, key, value) kept in a tuple object private to this instruction
		tup := s.fresh("n:"+s.a.site(in).key(), "range tuple", in.Pos())
		for l := range s.val(rng.X) {
			s.storeValFrom(mt.Key(), Loc{tup, "#1"}, l.sub("$key"))
			s.storeValFrom(mt.Elem(), Loc{tup, "#2"}, l)
		}
		s.addPts(x, LocSet{Loc{tup, ""}: {}})
	case *ssa.Extract:
		homes := LocSet{}
		for l := range s.val(x.Tuple) {
			homes[l.sub(fmt.Sprintf("#%d", x.Index))] = struct{}{}
		}
		s.addPts(x, s.loadVal(x.Type(), homes))
	case *ssa.Phi:
		for _, e := range x.Edges {
			s.addPts(x, s.val(e))
		}
	case *ssa.ChangeType:
		s.addPts(x, s.val(x.X))
	case *ssa.ChangeInterface:
		s.addPts(x, s.val(x.X))
	case *ssa.SliceToArrayPointer:
		s.addPts(x, s.val(x.X))
	case *ssa.MakeInterface:
		s.addPts(x, s.val(x.X)) // pointees of a pointer payload, homes of an aggregate payload
	case *ssa.Convert:
		s.convert(x, x.X)
	case *ssa.MultiConvert:
		s.convert(x, x.X)
	case *ssa.TypeAssert:
		t := x.AssertedType
		set := s.val(x.X)
		if !hasPtr(t) {
			return
		}
		if x.CommaOk {
			tup := s.fresh("ta:"+s.a.site(in).key(), "type-assert tuple", in.Pos())
			if isPtrLike(t) {
				s.addCont(Loc{tup, "#0"}, set, nil)
			} else {
				for l := range set {
					s.copyAgg(t, l, Loc{tup, "#0"}, nil)
				}
			}
			s.addPts(x, LocSet{Loc{tup, ""}: {}})
		} else {
			s.addPts(x, set)
		}
	case *ssa.MakeClosure:
		fn := x.Fn.(*ssa.Function)
		site := s.a.site(in)
		if !s.in[fn] {
			// bound-method wrapper or thunk: analyse its body as part of this group
			s.in[fn] = true
			s.fns = append(s.fns, fn)
			s.reached[fn] = struct{}{}
			s.a.indexSites(fn)
			s.a.analysed[fn] = struct{}{}
			s.changed = true
		}
		o := s.obj("f:"+site.key(), func() *Obj {
			return &Obj{kind: kFresh, desc: fmt.Sprintf("fresh closure %s @%s", shortName(fn.String()), s.a.pos(site)), fn: fn, pos: in.Pos()}
		})
		for i, b := range x.Bindings {
			s.addPts(fn.FreeVars[i], s.val(b))
			s.addCont(Loc{o, fmt.Sprintf("$%d", i)}, s.val(b), site)
		}
		s.addCont(Loc{o, "$ret"}, LocSet{Loc{s.retObj(fn), ""}: {}}, nil)
		s.addPts(x, LocSet{Loc{o, ""}: {}})
		// does the closure value escape direct-call use?  then its parameters may
		// be supplied by callers this group does not see.
		if !s.escArgs[fn] {
			for _, r := range *x.Referrers() {
				if c, ok := r.(ssa.CallInstruction); ok && c.Common().Value == x {
					continue
				}
				s.escArgs[fn] = true
				s.initParams(fn)
				break
			}
		}
	case *ssa.Return:
		site := s.a.site(in)
		r := s.retObj(f)
		for i, v := range x.Results {
			s.storeVal(v.Type(), Loc{r, fmt.Sprintf("#%d", i)}, s.val(v), site)
		}
	case ssa.CallInstruction:
		s.call(x)
	case *ssa.Select:
		if hasPtr(x.Type()) {
			s.addPts(x, LocSet{Loc{s.unknown, ""}: {}})
		}
	}
}

func (s *state) storeValFrom(t types.Type, dst, src Loc) {
	if isPtrLike(t) {
		s.addCont(dst, s.deref(src), nil)
	} else if isAgg(t) {
		s.copyAgg(t, src, dst, nil)
	}
}

func (s *state) lookupLike(x ssa.Value, elem types.Type, homes LocSet, commaOk bool) {
	if !commaOk {
		s.addPts(x, s.loadVal(elem, homes))
		return
	}
	tup := s.fresh("lk:"+s.a.site(x.(ssa.Instruction)).key(), "lookup tuple", x.Pos())
	for l := range homes {
		s.storeValFrom(elem, Loc{tup, "#0"}, l)
	}
	s.addPts(x, LocSet{Loc{tup, ""}: {}})
}

func (s *state) convert(x ssa.Value, from ssa.Value) {
	t := x.Type()
	if !isPtrLike(t) {
		return
	}
	if isPtrLike(from.Type()) {
		s.addPts(x, s.val(from))
		return
	}
	if b, ok := from.Type().Underlying().(*types.Basic); ok && b.Info()&types.IsString != 0 {
		s.addPts(x, LocSet{Loc{s.allocObj(x, "copy of string as "+typeName(t)), ""}: {}})
		return
	}
	// e.g. uintptr -> unsafe.Pointer: lost
	s.addPts(x, LocSet{Loc{s.unknown, ""}: {}})
}

func (s *state) retObj(f *ssa.Function) *Obj {
	return s.fresh("R:"+f.String(), "results of "+shortName(f.String()), f.Pos())
}

func typeName(t types.Type) string {
	return shortName(types.TypeString(t, func(p *types.Package) string { return p.Name() }))
}

// ---------------------------------------------------------------------------
// calls

func (s *state) call(in ssa.CallInstruction) {
	c := in.Common()
	site := s.a.site(in)
	res := in.Value() // nil for go/defer
	var resV ssa.Value
	if res != nil {
		resV = res
	}
	if c.IsInvoke() {
		args := []argv{s.arg(c.Value)}
		for _, a := range c.Args {
			args = append(args, s.arg(a))
		}
		fr, note := s.a.db.lookupIface(c.Value.Type(), c.Method)
		var impls []*ssa.Function
		if fr == nil || fr.AlsoCHA {
			impls = s.a.implementations(c.Value.Type(), c.Method)
		}
		if fr != nil {
			s.applyAssumed(site, fr, note, c.Signature(), args, resV)
		}
		for _, impl := range impls {
			s.applyFunc(site, impl, args, resV)
		}
		if fr == nil && len(impls) == 0 {
			s.unknownCall(site, fmt.Sprintf("interface method %s.%s has no implementation in the program and no assumed frame", ifaceName(c.Value.Type()), c.Method.Name()), resV)
		}
		return
	}
	var args []argv
	for _, a := range c.Args {
		args = append(args, s.arg(a))
	}
	switch v := c.Value.(type) {
	case *ssa.Builtin:
		s.builtin(site, v, c.Args, resV)
	case *ssa.Function:
		s.applyFunc(site, v, args, resV)
	case *ssa.MakeClosure:
		s.callInGroup(v.Fn.(*ssa.Function), args, resV)
	default:
		s.callValue(site, s.val(c.Value), args, resV)
	}
}

// callValue handles a call through a function value.
func (s *state) callValue(site *Site, targets LocSet, args []argv, res ssa.Value) {
	unresolved := LocSet{}
	for _, l := range targets.sorted() {
		o := l.o
		switch {
		case o.fn != nil && s.in[o.fn]:
			s.callInGroup(o.fn, args, res)
		case o.fn != nil && o.kind == kFresh:
			// closure created by a callee: its body's effects are part of the
			// creator's summary; only the results are needed here.
			s.readResult(res, s.derefAll(LocSet{l: {}}, "$ret"))
		case o.fn != nil && o.kind == kFunc:
			s.applyFunc(site, o.fn, args, res)
		case o.kind == kFresh && o.opaque != "":
			// function value returned by an assumed function: covered by its frame
			s.used[o.opaque] = struct{}{}
			if res != nil && hasPtr(res.Type()) {
				s.readOpaque(res, l)
			}
		default:
			unresolved[l] = struct{}{}
		}
	}
	if len(unresolved) > 0 {
		s.addCallEff(site, unresolved, args)
		if res != nil && hasPtr(res.Type()) {
			s.setUnknownResult(res)
		}
	}
}

func (s *state) addCallEff(site *Site, targets LocSet, args []argv) {
	ce := s.calls[site]
	if ce == nil {
		ce = &callEff{site: site, targets: LocSet{}}
		s.calls[site] = ce
		s.changed = true
	}
	for l := range targets {
		if _, ok := ce.targets[l]; !ok {
			ce.targets[l] = struct{}{}
			s.changed = true
		}
	}
	for i, a := range args {
		if i >= len(ce.args) {
			ce.args = append(ce.args, argv{a.t, LocSet{}})
		}
		for l := range a.set {
			if _, ok := ce.args[i].set[l]; !ok {
				ce.args[i].set[l] = struct{}{}
				s.changed = true
			}
		}
	}
}

// noteFn extracts the function name from an assumed-frame note.
func noteFn(note string) string {
	if i := strings.Index(note, " ("); i >= 0 && i < strings.Index(note+": ", ": ") {
		note = note[:i]
	} else if i := strings.Index(note, ": "); i >= 0 {
		note = note[:i]
	}
	return shortName(note)
}

// readOpaque makes every pointer leaf of res point to the opaque object l.
func (s *state) readOpaque(res ssa.Value, l Loc) {
	if isPtrLike(res.Type()) {
		s.addPts(res, LocSet{l: {}})
		return
	}
	home := s.fresh("oh:"+l.o.key, "result value", 0)
	s.addCont(Loc{home, "*"}, LocSet{l: {}}, nil)
	s.addPts(res, LocSet{Loc{home, ""}: {}})
}

func (s *state) setUnknownResult(res ssa.Value) {
	u := LocSet{Loc{s.unknown, ""}: {}}
	s.addPts(res, u)
}

// callInGroup binds arguments to the parameters of an anonymous function of
// this group and reads its results.
func (s *state) callInGroup(fn *ssa.Function, args []argv, res ssa.Value) {
	for i, p := range fn.Params {
		if i < len(args) {
			s.addPts(p, args[i].set)
		} else if hasPtr(p.Type()) {
			s.addPts(p, LocSet{Loc{s.unknown, ""}: {}})
		}
	}
	s.readResult(res, LocSet{Loc{s.retObj(fn), ""}: {}})
}

// readResult sets the abstraction of a call result from result-tuple homes.
func (s *state) readResult(res ssa.Value, homes LocSet) {
	if res == nil || !hasPtr(res.Type()) {
		return
	}
	if _, ok := res.Type().(*types.Tuple); ok {
		s.addPts(res, homes)
		return
	}
	h0 := LocSet{}
	for l := range homes {
		h0[l.sub("#0")] = struct{}{}
	}
	s.addPts(res, s.loadVal(res.Type(), h0))
}

func (s *state) unknownCall(site *Site, why string, res ssa.Value) {
	s.a.callNote[site] = "undecided: " + why
	s.write(site, LocSet{Loc{s.unknown, ""}: {}})
	if res != nil && hasPtr(res.Type()) {
		s.setUnknownResult(res)
	}
}

// applyFunc applies the effects of calling fn: assumed frame, inferred summary,
// or (neither) an unknown call.
func (s *state) applyFunc(site *Site, fn *ssa.Function, args []argv, res ssa.Value) {
	if fr, note := s.a.db.lookup(fn); fr != nil {
		s.applyAssumed(site, fr, note, fn.Signature, args, res)
		return
	}
	if s.in[fn] {
		s.callInGroup(fn, args, res)
		return
	}
	if len(fn.Blocks) == 0 {
		s.unknownCall(site, "callee "+fn.String()+" has neither an analysable body nor an assumed frame", res)
		return
	}
	top := fn
	if fn.Parent() != nil {
		// an anonymous function of another group called directly: conservative
		s.unknownCall(site, "direct call of foreign closure "+fn.String(), res)
		return
	}
	sum := s.a.summaryOf(top)
	if sum == nil {
		return // first iteration of a recursive cycle: empty summary
	}
	s.instantiate(site, sum, args, res)
}

// ---------------------------------------------------------------------------
// summary instantiation (call-site substitution)

type inst struct {
	s    *state
	sum  *state
	site *Site
	args []argv
	mu   map[*Obj]LocSet
}

func (s *state) instantiate(site *Site, sum *state, args []argv, res ssa.Value) {
	in := &inst{s: s, sum: sum, site: site, args: args, mu: map[*Obj]LocSet{}}
	for k := range sum.used {
		s.used[k] = struct{}{}
	}
	for f := range sum.reached {
		s.reached[f] = struct{}{}
	}
	// points-to edges of the visible part of the callee graph
	for _, e := range sum.visEdges {
		srcs := in.mapObj(e.src.o)
		if len(srcs) == 0 {
			continue
		}
		tg := in.mapLoc(e.dst)
		for b := range srcs {
			s.addCont(in.at(b, e.src.f), tg, e.site)
		}
	}
	// write effects
	for _, w := range sum.visWrites {
		for l := range in.mapObj(w.o) {
			s.recordWrite(w.site, l.o)
		}
	}
	// calls the callee could not resolve
	for _, ce := range sum.visCalls {
		targets := LocSet{}
		for l := range ce.targets {
			for m := range in.mapLoc(l) {
				targets[m] = struct{}{}
			}
		}
		var cargs []argv
		for _, a := range ce.args {
			set := LocSet{}
			for l := range a.set {
				for m := range in.mapLoc(l) {
					set[m] = struct{}{}
				}
			}
			cargs = append(cargs, argv{a.t, set})
		}
		s.callValue(ce.site, targets, cargs, nil)
	}
	s.readResult(res, in.mapObj(sum.retObj(sum.top)))
}

// at returns the caller location of field f of a callee object based at b.
func (in *inst) at(b Loc, f string) Loc {
	if f == "*" && !b.o.collapsed() {
		return Loc{b.o, "*"}
	}
	return b.sub(f)
}

func (in *inst) mapLoc(l Loc) LocSet {
	out := LocSet{}
	for b := range in.mapObj(l.o) {
		out[in.at(b, l.f)] = struct{}{}
	}
	return out
}

// mapObj maps a callee object to the caller locations it stands for.
func (in *inst) mapObj(oc *Obj) LocSet {
	if r, ok := in.mu[oc]; ok {
		return r
	}
	in.mu[oc] = nil
	s := in.s
	var r LocSet
	switch oc.kind {
	case kGlobal:
		r = LocSet{Loc{s.obj(oc.key, func() *Obj { c := *oc; return &c }), ""}: {}}
	case kUnknown:
		r = LocSet{Loc{s.unknown, ""}: {}}
	case kFunc:
		r = LocSet{Loc{s.funcObj(oc.fn), ""}: {}}
	case kFresh:
		key := "c:" + in.site.key() + "/" + oc.key
		if oc.depth+1 > maxDepth {
			key = "c:" + in.site.key() + "/*"
		}
		o := s.obj(key, func() *Obj {
			return &Obj{kind: kFresh, desc: oc.desc, pos: oc.pos, fn: oc.fn, depth: oc.depth + 1, opaque: oc.opaque}
		})
		r = LocSet{Loc{o, ""}: {}}
	case kParam:
		switch {
		case oc.owner != in.sum.top:
			// parameter of an escaping closure of the callee: stays symbolic
			r = LocSet{Loc{s.paramObj(oc.owner, oc.param, oc.path, oc.star), ""}: {}}
		case oc.star:
			r = s.reach(in.mapObj(oc.parent))
		case len(oc.path) == 0:
			r = in.slot(oc.param)
		default:
			r = LocSet{}
			last := oc.path[len(oc.path)-1]
			for b := range in.mapObj(oc.parent) {
				for t := range s.deref(in.at(b, last)) {
					r[t] = struct{}{}
				}
			}
		}
	}
	in.mu[oc] = r
	return r
}

// slot returns the caller "home" of callee parameter i.
func (in *inst) slot(i int) LocSet {
	if i >= len(in.args) {
		return nil
	}
	a := in.args[i]
	var pt types.Type
	if i < len(in.sum.top.Params) {
		pt = in.sum.top.Params[i].Type()
	}
	if pt != nil && isAgg(pt) {
		return a.set // homes of an aggregate (or of a boxed aggregate in an interface)
	}
	slot := in.s.fresh(fmt.Sprintf("s:%s:%d", in.site.key(), i), "argument slot", 0)
	in.s.addCont(Loc{slot, ""}, a.set, nil)
	return LocSet{Loc{slot, ""}: {}}
}

// ---------------------------------------------------------------------------
// builtins

func (s *state) builtin(site *Site, b *ssa.Builtin, args []ssa.Value, res ssa.Value) {
	switch b.Name() {
	case "append":
		dst := s.val(args[0])
		st, _ := args[0].Type().Underlying().(*types.Slice)
		nb := s.fresh("f:"+site.key(), fmt.Sprintf("fresh append backing @%s", s.a.pos(site)), site.Instr.Pos())
		out := LocSet{Loc{nb, ""}: {}}
		for l := range dst {
			out[l] = struct{}{}
		}
		s.a.callNote[site] = "builtin append (may write in place)"
		s.write(site, out)
		if st != nil && len(args) > 1 {
			if _, isSlice := args[1].Type().Underlying().(*types.Slice); isSlice && hasPtr(st.Elem()) {
				for src := range s.val(args[1]) {
					for d := range out {
						s.storeValFrom(st.Elem(), d, src)
						s.tagEdges(st.Elem(), d, site)
					}
				}
			}
		}
		if res != nil {
			s.addPts(res, out)
		}
	case "copy":
		dst := s.val(args[0])
		s.a.callNote[site] = "builtin copy (writes destination)"
		s.write(site, dst)
		if st, ok := args[0].Type().Underlying().(*types.Slice); ok && hasPtr(st.Elem()) {
			for src := range s.val(args[1]) {
				for d := range dst {
					s.storeValFrom(st.Elem(), d, src)
					s.tagEdges(st.Elem(), d, site)
				}
			}
		}
	case "delete", "clear":
		s.a.callNote[site] = "builtin " + b.Name()
		s.write(site, s.val(args[0]))
	case "ssa:wrapnilchk":
		if res != nil {
			s.addPts(res, s.val(args[0]))
		}
	case "recover":
		// value passed to panic: not tracked
	}
}

// tagEdges attributes the edges out of d (for element type t) to site when they
// have no origin yet.
func (s *state) tagEdges(t types.Type, d Loc, site *Site) {
	for _, q := range leaves(t) {
		dl := d.sub(q)
		for tg := range s.cont[dl.o][dl.f] {
			k := [2]Loc{dl, tg}
			if _, ok := s.origin[k]; !ok {
				s.origin[k] = site
			}
		}
	}
}

// ---------------------------------------------------------------------------
// assumed frames

func (s *state) applyAssumed(site *Site, fr *Frame, note string, sig *types.Signature, args []argv, res ssa.Value) {
	s.used[note] = struct{}{}
	get := func(i int) LocSet {
		if i < len(args) {
			return args[i].set
		}
		return nil
	}
	deep := func(i int) LocSet { return s.reach(get(i)) }
	wrote := false
	for _, i := range fr.Writes {
		if len(get(i)) > 0 {
			s.write(site, get(i))
		}
		wrote = true
	}
	wd := fr.WritesDeep
	if fr.RecvWrites && sig.Recv() != nil {
		if _, ok := sig.Recv().Type().Underlying().(*types.Pointer); ok {
			wd = append(append([]int(nil), wd...), 0)
		}
	}
	for _, i := range wd {
		s.write(site, deep(i))
		wrote = true
	}
	if wrote || len(fr.Stores) > 0 || len(fr.StoresFresh) > 0 {
		s.a.callNote[site] = "assumed frame: " + note
	}
	for _, ds := range fr.Stores {
		for l := range get(ds[0]) {
			s.addCont(Loc{l.o, "*"}, deep(ds[1]), site)
		}
	}
	for _, i := range fr.StoresFresh {
		f := s.fresh("af:"+site.key(), fmt.Sprintf("fresh memory allocated by %s @%s", noteFn(note), s.a.pos(site)), site.Instr.Pos())
		self := LocSet{Loc{f, ""}: {}}
		s.addCont(Loc{f, "*"}, self, nil)
		for l := range deep(i) {
			if l.o.kind == kFunc {
				continue
			}
			s.addCont(Loc{l.o, "*"}, self, site)
		}
	}
	for _, i := range fr.Calls {
		var cargs []argv
		if i < len(args) {
			if fs, ok := args[i].t.Underlying().(*types.Signature); ok {
				for j := 0; j < fs.Params().Len(); j++ {
					a := argv{fs.Params().At(j).Type(), nil}
					if hasPtr(a.t) {
						a.set = LocSet{Loc{s.unknown, ""}: {}}
					}
					cargs = append(cargs, a)
				}
			}
		}
		s.callValue(site, get(i), cargs, nil)
	}
	for _, i := range fr.CallsMeths {
		if i >= len(args) {
			continue
		}
		it, _ := args[i].t.Underlying().(*types.Interface)
		if it == nil {
			continue
		}
		for j := 0; j < it.NumMethods(); j++ {
			m := it.Method(j)
			msig := m.Type().(*types.Signature)
			for _, impl := range s.a.implementations(args[i].t, m) {
				cargs := []argv{args[i]}
				for k := 0; k < msig.Params().Len(); k++ {
					a := argv{msig.Params().At(k).Type(), nil}
					if hasPtr(a.t) {
						a.set = LocSet{Loc{s.unknown, ""}: {}}
					}
					cargs = append(cargs, a)
				}
				s.applyFunc(site, impl, cargs, nil)
			}
		}
	}
	if res == nil || !hasPtr(res.Type()) || fr.Result == "none" {
		return
	}
	f := s.fresh("ar:"+site.key(), fmt.Sprintf("fresh result of %s @%s", noteFn(note), s.a.pos(site)), site.Instr.Pos())
	f.opaque = note
	self := LocSet{Loc{f, ""}: {}}
	s.addCont(Loc{f, "*"}, self, nil)
	for _, i := range fr.Holds {
		s.addCont(Loc{f, "*"}, deep(i), site)
	}
	out := LocSet{Loc{f, ""}: {}}
	al := fr.Aliases
	if fr.AliasesAll {
		al = nil
		for i := range args {
			al = append(al, i)
		}
	}
	for _, i := range al {
		for l := range deep(i) {
			out[l] = struct{}{}
		}
	}
	if isPtrLike(res.Type()) {
		s.addPts(res, out)
	} else {
		// aggregate or tuple result: a fresh home whose every pointer leaf may be any of `out`
		home := s.fresh("ah:"+site.key(), "result value", site.Instr.Pos())
		s.addCont(Loc{home, "*"}, out, site)
		s.addPts(res, LocSet{Loc{home, ""}: {}})
	}
}

// ---------------------------------------------------------------------------
// finishing a group: the externally visible part of the graph

type visEdge struct {
	src, dst Loc
	site     *Site
}
type visWrite struct {
	site *Site
	o    *Obj
}

func (s *state) finish() {
	vis := map[*Obj]bool{}
	var work []*Obj
	push := func(o *Obj) {
		if !vis[o] {
			vis[o] = true
			work = append(work, o)
		}
	}
	for _, o := range s.objs {
		if o.kind != kFresh {
			push(o)
		}
	}
	push(s.retObj(s.top))
	for _, ce := range s.calls {
		for l := range ce.targets {
			push(l.o)
		}
		for _, a := range ce.args {
			for l := range a.set {
				push(l.o)
			}
		}
	}
	for len(work) > 0 {
		o := work[len(work)-1]
		work = work[:len(work)-1]
		for _, ts := range s.cont[o] {
			for t := range ts {
				push(t.o)
			}
		}
	}
	s.visEdges = nil
	for o := range vis {
		for f, ts := range s.cont[o] {
			for t := range ts {
				src := Loc{o, f}
				s.visEdges = append(s.visEdges, visEdge{src, t, s.origin[[2]Loc{src, t}]})
			}
		}
	}
	sort.Slice(s.visEdges, func(i, j int) bool {
		a, b := s.visEdges[i], s.visEdges[j]
		if a.src != b.src {
			return a.src.o.key+"|"+a.src.f < b.src.o.key+"|"+b.src.f
		}
		return a.dst.o.key+"|"+a.dst.f < b.dst.o.key+"|"+b.dst.f
	})
	s.visWrites = nil
	for site, m := range s.writes {
		for o := range m {
			s.visWrites = append(s.visWrites, visWrite{site, o})
		}
	}
	sort.Slice(s.visWrites, func(i, j int) bool {
		a, b := s.visWrites[i], s.visWrites[j]
		if a.site != b.site {
			return a.site.less(b.site)
		}
		return a.o.key < b.o.key
	})
	s.visCalls = nil
	for _, ce := range s.calls {
		s.visCalls = append(s.visCalls, ce)
	}
	sort.Slice(s.visCalls, func(i, j int) bool { return s.visCalls[i].site.less(s.visCalls[j].site) })

	var sb strings.Builder
	for _, e := range s.visEdges {
		fmt.Fprintf(&sb, "E %s.%s>%s.%s\n", e.src.o.key, e.src.f, e.dst.o.key, e.dst.f)
	}
	for _, w := range s.visWrites {
		fmt.Fprintf(&sb, "W %s %s\n", w.site.key(), w.o.key)
	}
	for _, ce := range s.visCalls {
		fmt.Fprintf(&sb, "C %s", ce.site.key())
		for _, l := range ce.targets.sorted() {
			fmt.Fprintf(&sb, " %s.%s", l.o.key, l.f)
		}
		for _, a := range ce.args {
			sb.WriteString(" |")
			for _, l := range a.set.sorted() {
				fmt.Fprintf(&sb, " %s.%s", l.o.key, l.f)
			}
		}
		sb.WriteString("\n")
	}
	s.digest = sb.String()
}
