#!/bin/bash
# Self-test of the frame checker.
#
#   selftest/run.sh [--no-compile] [name-filter]
#
# For every patch under mutants/ and refactors/: copy the repository to a scratch
# directory under /tmp, apply the patch, (optionally) check that it still
# compiles including tests, run the checker with -repo, compare with the
# expectation, delete the copy.  Prints a matrix; exit 0 iff every row is ok.
#
#   mutants/expect.json : patch -> [{property, expect_failed_prefix}]  (must exit 1 and
#                         a FAILED obligation whose name starts with the prefix)
#   refactors/*.patch   : must exit 0 with zero failed obligations for C11 and C20
set -u
export GOFLAGS=-mod=mod GOPROXY=off GOSUMDB=off GOTOOLCHAIN=local
HERE=$(cd "$(dirname "$0")" && pwd)
REPO=${REPO:-/repo}
BIN=${FRAMECHECK:-/verif/bin/framecheck}
COMPILE=1
FILTER=""
for a in "$@"; do
  case "$a" in
    --no-compile) COMPILE=0 ;;
    *) FILTER="$a" ;;
  esac
done
[ -x "$BIN" ] || { echo "missing $BIN (build it: cd /verif/framecheck && go build -o /verif/bin/framecheck .)"; exit 2; }

rc=0
printf '%-46s %-5s %-8s %-4s %s\n' PATCH PROP EXPECT EXIT RESULT

scratch_for() { # $1 = patch file ; echoes scratch dir or nothing on failure
  local name d
  name=$(basename "$1" .patch)
  d="/tmp/fc_scratch_${name}_$$"
  rm -rf "$d"
  cp -r "$REPO" "$d" || return 1
  (cd "$d" && patch -p1 -s --no-backup-if-mismatch < "$1") >/dev/null 2>&1 || { rm -rf "$d"; return 1; }
  echo "$d"
}

compiles() { # $1 = scratch dir
  [ "$COMPILE" = 1 ] || return 0
  (cd "$1" && go test -count=1 -run '^$' ./... >/tmp/fc_compile_$$.log 2>&1)
}

for p in "$HERE"/mutants/*.patch; do
  name=$(basename "$p")
  case "$name" in *"$FILTER"*) ;; *) continue ;; esac
  d=$(scratch_for "$p")
  if [ -z "$d" ]; then printf '%-46s %-5s %-8s %-4s %s\n' "$name" - fail - "PATCH-DOES-NOT-APPLY"; rc=1; continue; fi
  if ! compiles "$d"; then printf '%-46s %-5s %-8s %-4s %s\n' "$name" - fail - "DOES-NOT-COMPILE (see /tmp/fc_compile_$$.log)"; rc=1; rm -rf "$d"; continue; fi
  n=$(python3 -c "import json,sys; print(len(json.load(open('$HERE/mutants/expect.json')).get('$name',[])))")
  if [ "$n" = 0 ]; then printf '%-46s %-5s %-8s %-4s %s\n' "$name" - fail - "NO-EXPECTATION"; rc=1; rm -rf "$d"; continue; fi
  for i in $(seq 0 $((n-1))); do
    prop=$(python3 -c "import json; print(json.load(open('$HERE/mutants/expect.json'))['$name'][$i]['property'])")
    pre=$(python3 -c "import json; print(json.load(open('$HERE/mutants/expect.json'))['$name'][$i]['expect_failed_prefix'])")
    out=/tmp/fc_selftest_$$.json
    "$BIN" -repo "$d" -prop "$prop" -out "$out" >/tmp/fc_selftest_$$.txt 2>&1
    ec=$?
    hit=$(python3 - "$out" "$pre" <<'EOF'
import json,sys
try:
    d=json.load(open(sys.argv[1]))
except Exception:
    print(""); sys.exit()
hits=[o["name"] for o in d["obligations"] if o["status"]=="failed" and o["name"].startswith(sys.argv[2])]
print(",".join(h.split("/")[-1] for h in hits[:3]))
EOF
)
    if [ "$ec" = 1 ] && [ -n "$hit" ]; then res="ok   caught by $pre{$hit}"; else res="MISSED (wanted failed $pre*)"; rc=1; fi
    printf '%-46s %-5s %-8s %-4s %s\n' "$name" "$prop" fail "$ec" "$res"
  done
  rm -rf "$d"
done

for p in "$HERE"/refactors/*.patch; do
  name=$(basename "$p")
  case "$name" in *"$FILTER"*) ;; *) continue ;; esac
  d=$(scratch_for "$p")
  if [ -z "$d" ]; then printf '%-46s %-5s %-8s %-4s %s\n' "$name" - pass - "PATCH-DOES-NOT-APPLY"; rc=1; continue; fi
  if ! compiles "$d"; then printf '%-46s %-5s %-8s %-4s %s\n' "$name" - pass - "DOES-NOT-COMPILE (see /tmp/fc_compile_$$.log)"; rc=1; rm -rf "$d"; continue; fi
  for prop in C11 C20; do
    out=/tmp/fc_selftest_$$.json
    "$BIN" -repo "$d" -prop "$prop" -out "$out" >/tmp/fc_selftest_$$.txt 2>&1
    ec=$?
    und=$(grep -c '^FRAME-UNDECIDED' /tmp/fc_selftest_$$.txt)
    if [ "$ec" = 0 ]; then res="ok   (undecided=$und)"; else res="FALSE ALARM: $(grep -m1 '^FRAME-FAIL' /tmp/fc_selftest_$$.txt | cut -c1-160)"; rc=1; fi
    printf '%-46s %-5s %-8s %-4s %s\n' "$name" "$prop" pass "$ec" "$res"
  done
  rm -rf "$d"
done

# the unchanged tree itself
if [ -z "$FILTER" ]; then
  for prop in C11 C20; do
    "$BIN" -repo "$REPO" -prop "$prop" -out /tmp/fc_selftest_$$.json >/tmp/fc_selftest_$$.txt 2>&1
    ec=$?
    und=$(grep -c '^FRAME-UNDECIDED' /tmp/fc_selftest_$$.txt)
    if [ "$ec" = 0 ]; then res="ok   (undecided=$und)"; else res="FAILS ON UNCHANGED TREE"; rc=1; fi
    printf '%-46s %-5s %-8s %-4s %s\n' "(unchanged $REPO)" "$prop" pass "$ec" "$res"
  done
fi
rm -f /tmp/fc_selftest_$$.json /tmp/fc_selftest_$$.txt /tmp/fc_compile_$$.log
[ "$rc" = 0 ] && echo "SELFTEST OK" || echo "SELFTEST FAILED"
exit $rc
