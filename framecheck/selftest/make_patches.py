#!/usr/bin/env python3
"""Regenerates selftest/mutants/*.patch and selftest/refactors/*.patch from textual edits.

Usage: make_patches.py [repo]      (default /repo; never modifies it)

Each entry edits files of a scratch copy by exact string replacement and the
unified diff against the pristine file becomes the patch (apply with `patch -p1`).
Only needed when /repo changes so much that the stored patches no longer apply.
"""
import difflib, os, sys

REPO = sys.argv[1] if len(sys.argv) > 1 else "/repo"
HERE = os.path.dirname(os.path.abspath(__file__))

def patch(edits):
    """edits: list of (relative file, old, new). Returns unified diff text."""
    files = {}
    for rel, old, new in edits:
        if rel not in files:
            files[rel] = open(os.path.join(REPO, rel)).read()
        if files[rel].count(old) != 1:
            raise SystemExit("edit does not apply exactly once in %s: %r" % (rel, old[:60]))
        files[rel] = files[rel].replace(old, new)
    out = []
    for rel, text in files.items():
        orig = open(os.path.join(REPO, rel)).read()
        out.extend(difflib.unified_diff(orig.splitlines(True), text.splitlines(True), "a/" + rel, "b/" + rel))
    return "".join(out)

SLIMTRIE_FIELDS = ("trie/slimtrie.go", "\tencoder encode.Encoder\n}", "\tencoder encode.Encoder\n%s\n}")

def field(decl):
    f, old, new = SLIMTRIE_FIELDS
    return (f, old, new % decl)

MUTANTS = {
 "S05_marshal_cache": [
    field("\tmarshalCache []byte"),
    ("trie/slimtrie_marshal.go", "\tvar buf []byte\n\twriter := bytes.NewBuffer(buf)\n",
     "\tif st.marshalCache != nil {\n\t\treturn st.marshalCache, nil\n\t}\n\tvar buf []byte\n\twriter := bytes.NewBuffer(buf)\n"),
    ("trie/slimtrie_marshal.go", "\treturn writer.Bytes(), nil\n",
     "\tst.marshalCache = writer.Bytes()\n\treturn st.marshalCache, nil\n"),
 ],
 "S06_scan_buffer_in_trie": [
    field("\tscanBuf []byte"),
    ("trie/slimtrie_scan.go", "\tbuf := make([]byte, 0, 64)\n",
     "\tif st.scanBuf == nil {\n\t\tst.scanBuf = make([]byte, 0, 64)\n\t}\n\tbuf := st.scanBuf[:0]\n"),
 ],
 "S07_stat_cache": [
    field("\tstat *Stat"),
    ("trie/slimtrie_stat.go", "\tns := st.inner\n\n\trst := &Stat{}\n",
     "\tif st.stat != nil {\n\t\treturn st.stat\n\t}\n\n\tns := st.inner\n\n\trst := &Stat{}\n"),
    ("trie/slimtrie_stat.go", "\trst.NodeCnt = st.levels[level_cnt-1].total\n\n\treturn rst\n",
     "\trst.NodeCnt = st.levels[level_cnt-1].total\n\n\tst.stat = rst\n\treturn rst\n"),
 ],
 "S12_shared_query_session": [
    ("trie/slimtrie_query.go", "// Get the value of the specified key from SlimTrie.\n",
     "var sharedQR querySession\n\n// Get the value of the specified key from SlimTrie.\n"),
    ("trie/slimtrie_query.go",
     "\tl := int32(8 * len(key))\n\tqr := &querySession{\n\t\tkeyBitLen: l,\n\t\tkey:       key,\n\t}\n\n\ti := int32(0)\n\n\tfor {\n\n\t\tst.getNode(eqID, qr)\n\t\tif qr.isInner == 0 {\n\t\t\t// leaf\n\t\t\tbreak\n\t\t}\n\n\t\tif qr.hasInnerPrefix {\n\t\t\tr := bitstr.StrCmpUpto(key[i>>3:], qr.innerPrefix)\n\t\t\tif r != 0 {\n\t\t\t\treturn -1\n",
     "\tl := int32(8 * len(key))\n\tqr := &sharedQR\n\t*qr = querySession{}\n\tqr.keyBitLen = l\n\tqr.key = key\n\n\ti := int32(0)\n\n\tfor {\n\n\t\tst.getNode(eqID, qr)\n\t\tif qr.isInner == 0 {\n\t\t\t// leaf\n\t\t\tbreak\n\t\t}\n\n\t\tif qr.hasInnerPrefix {\n\t\t\tr := bitstr.StrCmpUpto(key[i>>3:], qr.innerPrefix)\n\t\t\tif r != 0 {\n\t\t\t\treturn -1\n"),
 ],
 "S13_write_through_opt_pointer": [
    ("trie/slimtrie.go", "\t\to.InnerPrefix = Bool(true)\n\t\to.LeafPrefix = Bool(true)\n",
     "\t\tif o.InnerPrefix != nil {\n\t\t\t*o.InnerPrefix = true\n\t\t} else {\n\t\t\to.InnerPrefix = Bool(true)\n\t\t}\n\t\to.LeafPrefix = Bool(true)\n"),
 ],
 "S22_unmarshal_zero_copy_leaves": [
    ("trie/slimtrie_marshal.go", "\t\tif vers.Check(ver, \"<0.5.12\") {\n\t\t\tbefore000512InnerPrefixTobitstr(st)\n",
     "\t\tif st.inner.Leaves != nil && len(st.inner.Leaves.Bytes) > 0 {\n\t\t\tst.inner.Leaves.Bytes = buf[len(buf)-len(st.inner.Leaves.Bytes):]\n\t\t}\n\n\t\tif vers.Check(ver, \"<0.5.12\") {\n\t\t\tbefore000512InnerPrefixTobitstr(st)\n"),
 ],
 "S23_getnode_caches_last_node": [
    field("\tlastNode int32"),
    ("trie/slimtrie_query.go", "\tqr.innerPrefixLen = 0\n\tqr.hasInnerPrefix = false\n",
     "\tst.lastNode = nodeId\n\n\tqr.innerPrefixLen = 0\n\tqr.hasInnerPrefix = false\n"),
 ],
 "S24a_getleafprefix_lowercases_in_place": [
    ("trie/slimtrie_query.go", "\t\t\tqr.leafPrefix = lp.Bytes[from:to]\n",
     "\t\t\tqr.leafPrefix = lp.Bytes[from:to]\n\t\t\tif len(qr.leafPrefix) > 0 {\n\t\t\t\tqr.leafPrefix[0] |= 0x20\n\t\t\t}\n"),
 ],
 "S24b_getid_lowercases_in_place": [
    ("trie/slimtrie_query.go", "\t\t\t\tif !bytes.Equal(qr.leafPrefix, []byte(key[i>>3:])) {\n",
     "\t\t\t\tif len(qr.leafPrefix) > 0 {\n\t\t\t\t\tqr.leafPrefix[0] |= 0x20\n\t\t\t\t}\n\t\t\t\tif !bytes.Equal(qr.leafPrefix, []byte(key[i>>3:])) {\n"),
 ],
 "S25_lazy_legacy_conversion": [
    field("\tlegacyPending bool"),
    ("trie/slimtrie_marshal.go", "\t\t\tbefore000512InnerPrefixTobitstr(st)\n\t\t\tbefore000512FixLeafSize(st)\n",
     "\t\t\tst.legacyPending = true\n\t\t\tbefore000512FixLeafSize(st)\n"),
    ("trie/slimtrie_query.go", "\teqID := int32(0)\n\n\tif st.inner.NodeTypeBM == nil {\n\t\treturn -1\n\t}\n\n\tl := int32(8 * len(key))\n\tqr := &querySession{\n",
     "\teqID := int32(0)\n\n\tif st.legacyPending {\n\t\tbefore000512InnerPrefixTobitstr(st)\n\t\tst.legacyPending = false\n\t}\n\n\tif st.inner.NodeTypeBM == nil {\n\t\treturn -1\n\t}\n\n\tl := int32(8 * len(key))\n\tqr := &querySession{\n"),
 ],
 "S26_single_value_not_copied": [
    ("trie/slimtrie_create.go", "\tslim.Leaves = c.buildLeaves(bytesValues)\n\n\treturn slim, nil\n",
     "\tslim.Leaves = c.buildLeaves(bytesValues)\n\tif slim.Leaves != nil && len(c.leafIndexes) == 1 {\n\t\tslim.Leaves.Bytes = bytesValues[c.leafIndexes[0]]\n\t}\n\n\treturn slim, nil\n"),
 ],
 "S27_marshal_returns_global_scratch": [
    ("trie/slimtrie_marshal.go", "// Marshal serializes it to byte stream.\n",
     "var marshalScratch = make([]byte, 0, 1<<16)\n\n// Marshal serializes it to byte stream.\n"),
    ("trie/slimtrie_marshal.go", "\treturn writer.Bytes(), nil\n",
     "\tb := writer.Bytes()\n\tmarshalScratch = append(marshalScratch[:0], b...)\n\treturn marshalScratch[:len(b)], nil\n"),
 ],
}

# property and obligation-name prefix that must FAIL for each mutant
EXPECT = {
 "S05_marshal_cache": [["C11", "trie.(*SlimTrie).Marshal/frame#store"], ["C20", "trie.(*SlimTrie).Marshal/fresh#result"]],
 "S06_scan_buffer_in_trie": [["C11", "trie.(*SlimTrie).newIter/frame#store"]],
 "S07_stat_cache": [["C11", "trie.(*SlimTrie).Stat/frame#store"]],
 "S12_shared_query_session": [["C11", "trie.(*SlimTrie).GetID/frame#store"]],
 "S13_write_through_opt_pointer": [["C20", "trie.normalizeOpt/frame#store"]],
 "S22_unmarshal_zero_copy_leaves": [["C20", "trie.(*SlimTrie).Unmarshal/escape#"]],
 "S23_getnode_caches_last_node": [["C11", "trie.(*SlimTrie).getNode/frame#store"]],
 "S24a_getleafprefix_lowercases_in_place": [["C11", "trie.(*SlimTrie).getLeafPrefix/frame#store"]],
 "S24b_getid_lowercases_in_place": [["C11", "trie.(*SlimTrie).GetID/frame#store"]],
 "S25_lazy_legacy_conversion": [["C11", "trie.(*SlimTrie).GetID/frame#store"], ["C11", "trie.before000512InnerPrefixTobitstr/frame#call"]],
 "S26_single_value_not_copied": [["C20", "trie.newSlim/escape#"]],
 "S27_marshal_returns_global_scratch": [["C20", "trie.(*SlimTrie).Marshal/fresh#result"], ["C11", "trie.(*SlimTrie).Marshal/frame#store"]],
}

GETID_ALLOC = "\tl := int32(8 * len(key))\n\tqr := &querySession{\n\t\tkeyBitLen: l,\n\t\tkey:       key,\n\t}\n\n\ti := int32(0)\n\n\tfor {\n\n\t\tst.getNode(eqID, qr)\n\t\tif qr.isInner == 0 {\n\t\t\t// leaf\n\t\t\tbreak\n\t\t}\n\n\t\tif qr.hasInnerPrefix {\n\t\t\tr := bitstr.StrCmpUpto(key[i>>3:], qr.innerPrefix)\n\t\t\tif r != 0 {\n"
def getid(new_alloc):
    return ("trie/slimtrie_query.go", GETID_ALLOC, GETID_ALLOC.replace("\tqr := &querySession{\n\t\tkeyBitLen: l,\n\t\tkey:       key,\n\t}\n", new_alloc))

REFACTORS = {
 "R01_rename_locals": [
    ("trie/slimtrie_query.go", "\tns := st.inner\n\tvars := st.vars\n\n\tqr.innerPrefixLen = 0\n", "\tslim := st.inner\n\tvars := st.vars\n\tns := slim\n\n\tqr.innerPrefixLen = 0\n"),
    ("trie/slimtrie_stat.go", "\trst := &Stat{}\n", "\tresult := &Stat{}\n\trst := result\n"),
    ("trie/slimtrie_scan.go", "\tbuf := make([]byte, 0, 64)\n\tbufBitIdx := int32(0)\n", "\tkeyBuf := make([]byte, 0, 64)\n\tbuf := keyBuf\n\tbufBitIdx := int32(0)\n"),
 ],
 "R02_helper_returns_fresh_session": [
    ("trie/slimtrie_query.go", "// Get the value of the specified key from SlimTrie.\n",
     "func newQuerySession(key string) *querySession {\n\tqr := &querySession{}\n\tqr.keyBitLen = int32(8 * len(key))\n\tqr.key = key\n\treturn qr\n}\n\n// Get the value of the specified key from SlimTrie.\n"),
    getid("\tqr := newQuerySession(key)\n"),
 ],
 "R03_iter_buffer_capacity_128": [
    ("trie/slimtrie_scan.go", "\tbuf := make([]byte, 0, 64)\n", "\tbuf := make([]byte, 0, 128)\n"),
 ],
 "R04_getnode_reorders_resets": [
    ("trie/slimtrie_query.go", "\tqr.innerPrefixLen = 0\n\tqr.hasInnerPrefix = false\n", "\tqr.hasInnerPrefix = false\n\tqr.innerPrefixLen = 0\n"),
 ],
 "R05_getid_new_then_assign": [
    getid("\tqr := new(querySession)\n\tqr.keyBitLen = l\n\tqr.key = key\n"),
 ],
 "R06_stat_local_struct": [
    ("trie/slimtrie_stat.go", "\trst := &Stat{}\n", "\tvar local Stat\n\trst := &local\n"),
 ],
 "R07_unrelated_exported_pure_function": [
    ("trie/slimtrie.go", "func Bool(v bool) *bool {\n", "// MaxKeyBits returns the number of bits of the longest key in keys.\nfunc MaxKeyBits(keys []string) int {\n\tm := 0\n\tfor _, k := range keys {\n\t\tif 8*len(k) > m {\n\t\t\tm = 8 * len(k)\n\t\t}\n\t}\n\treturn m\n}\n\nfunc Bool(v bool) *bool {\n"),
 ],
 "R08_helper_writes_callers_fresh_session": [
    ("trie/slimtrie_query.go", "// Get the value of the specified key from SlimTrie.\n",
     "func (st *SlimTrie) resetSession(qr *querySession, key string) {\n\tqr.keyBitLen = int32(8 * len(key))\n\tqr.key = key\n\tqr.innerPrefix = nil\n\tqr.leafPrefix = nil\n}\n\n// Get the value of the specified key from SlimTrie.\n"),
    getid("\tqr := &querySession{}\n\tst.resetSession(qr, key)\n"),
 ],
 "R09_opt_normalized_on_second_copy": [
    ("trie/slimtrie.go", "\tnormalizeOpt(&opt)\n", "\tnormalized := opt\n\topt = *normalizeOpt(&normalized)\n"),
 ],
 "R10_marshal_presized_buffer": [
    ("trie/slimtrie_marshal.go", "\tvar buf []byte\n\twriter := bytes.NewBuffer(buf)\n", "\tbuf := make([]byte, 0, 4096)\n\twriter := bytes.NewBuffer(buf)\n"),
 ],
 "R11_unmarshal_reader_from_subslice": [
    ("trie/slimtrie_marshal.go", "\tst.inner = &Slim{}\n\n\treader := bytes.NewReader(buf)\n", "\tst.inner = &Slim{}\n\n\tinput := buf[:len(buf):len(buf)]\n\treader := bytes.NewReader(input)\n"),
 ],
}


# --- additional adversarial mutants (not in the brief; they probe the analysis itself)
MUTANTS.update({
 "M01_write_through_local_alias": [
    ("trie/slimtrie_query.go", "\tns := st.inner\n\tr, ith := bitmap.Rank64(ns.NodeTypeBM.Words, ns.NodeTypeBM.RankIndex, nodeid)\n",
     "\tns := st.inner\n\talias := ns.NodeTypeBM\n\talias.RankIndex[0] = 0\n\tr, ith := bitmap.Rank64(ns.NodeTypeBM.Words, ns.NodeTypeBM.RankIndex, nodeid)\n"),
 ],
 "M02_iterator_closure_writes_trie": [
    ("trie/slimtrie_scan.go", "\t\tif stackIdx == -1 {\n\t\t\treturn nil, nil\n\t\t}\n",
     "\t\tif stackIdx == -1 {\n\t\t\tst.levels[0].total++\n\t\t\treturn nil, nil\n\t\t}\n"),
 ],
 "M03_encoder_decode_caches_in_receiver": [
    ("encode/type_encoder.go", "\t// Size is the encoded size of this type.\n\tSize int\n}", "\t// Size is the encoded size of this type.\n\tSize int\n\tlast interface{}\n}"),
    ("encode/type_encoder.go", "\treturn m.Size, reflect.Indirect(v).Interface()\n", "\tm.last = reflect.Indirect(v).Interface()\n\treturn m.Size, m.last\n"),
 ],
 "M04_tree_callback_writes_trie": [
    ("trie/slimtrie_str.go", "\tnid := stNodeID(node)\n\tn := &querySession{}\n", "\tnid := stNodeID(node)\n\ts.st.levels[0].leaf = nid\n\tn := &querySession{}\n"),
 ],
 "M05_get_records_in_global_map": [
    ("trie/slimtrie_query.go", "// Get the value of the specified key from SlimTrie.\n", "var getStats = map[string]int{}\n\n// Get the value of the specified key from SlimTrie.\n"),
    ("trie/slimtrie_query.go", "\teqID := st.GetID(key)\n\n\tif eqID == -1 {\n\t\treturn nil, false\n\t}\n\n\tv := st.getLeaf(eqID)\n", "\teqID := st.GetID(key)\n\tgetStats[key]++\n\n\tif eqID == -1 {\n\t\treturn nil, false\n\t}\n\n\tv := st.getLeaf(eqID)\n"),
 ],
 "M06_newslimtrie_retains_keys_slice": [
    field("\tkeys []string"),
    ("trie/slimtrie.go", "\tst.init()\n\treturn st, nil\n", "\tst.keys = keys\n\tst.init()\n\treturn st, nil\n"),
 ],
 "M07_build_scribbles_value_bytes": [
    ("trie/slimtrie_create.go", "\t\ttokeep[0] = true\n", "\t\ttokeep[0] = true\n\t\tif len(values[0]) > 0 {\n\t\t\tvalues[0][0] ^= 0\n\t\t}\n"),
 ],
 "M08_unmarshal_retains_reader": [
    field("\tsrc *bytes.Reader"),
    ("trie/slimtrie.go", "import (\n\t\"fmt\"\n", "import (\n\t\"bytes\"\n\t\"fmt\"\n"),
    ("trie/slimtrie_marshal.go", "\treader = bytes.NewReader(buf)\n\n\t// 0.5.10 and 0.5.11", "\treader = bytes.NewReader(buf)\n\tst.src = reader\n\n\t// 0.5.10 and 0.5.11"),
 ],
 "M09_stat_sorts_shared_levels": [
    ("trie/slimtrie_stat.go", "package trie\n", "package trie\n\nimport \"sort\"\n"),
    ("trie/slimtrie_stat.go", "\tlevel_cnt := len(st.levels)\n", "\tsort.Slice(st.levels, func(i, j int) bool { return st.levels[i].total < st.levels[j].total })\n\tlevel_cnt := len(st.levels)\n"),
 ],
 "M10_helper_writes_into_slice_param": [
    ("trie/slimtrie_query.go", "// Get the value of the specified key from SlimTrie.\n", "func lower(bs []byte) {\n\tfor i := range bs {\n\t\tbs[i] |= 0x20\n\t}\n}\n\n// Get the value of the specified key from SlimTrie.\n"),
    ("trie/slimtrie_query.go", "\t\t\t\tif !bytes.Equal(qr.leafPrefix, []byte(key[i>>3:])) {\n", "\t\t\t\tlower(qr.leafPrefix)\n\t\t\t\tif !bytes.Equal(qr.leafPrefix, []byte(key[i>>3:])) {\n"),
 ],
 "M11_append_in_place_on_shared": [
    ("trie/slimtrie_query.go", "\tls := st.inner.Leaves\n\tif ls == nil {\n\t\treturn nil\n\t}\n\n\tbs := ls.get(ith)\n", "\tls := st.inner.Leaves\n\tif ls == nil {\n\t\treturn nil\n\t}\n\t_ = append(ls.Bytes[:0], 0)\n\n\tbs := ls.get(ith)\n"),
 ],
 "M12_deferred_and_go_writes": [
    ("trie/slimtrie_getint.go", "func (st *SlimTrie) GetI8(key string) (int8, bool) {\n", "func (st *SlimTrie) GetI8(key string) (int8, bool) {\n\tdefer func() { st.levels[0].inner = 0 }()\n"),
    ("trie/slimtrie_getint.go", "func (st *SlimTrie) GetI16(key string) (int16, bool) {\n", "func (st *SlimTrie) GetI16(key string) (int16, bool) {\n\tgo st.initVars()\n"),
 ],
 "M13_method_value_writes": [
    ("trie/slimtrie_getint.go", "func (st *SlimTrie) GetI32(key string) (int32, bool) {\n", "func (st *SlimTrie) GetI32(key string) (int32, bool) {\n\tf := st.initLevels\n\tf()\n"),
 ],
 "M14_write_via_struct_copy_holding_pointer": [
    ("trie/slimtrie_getint.go", "func (st *SlimTrie) GetI64(key string) (int64, bool) {\n", "func (st *SlimTrie) GetI64(key string) (int64, bool) {\n\tcp := *st\n\tcp.inner.ShortSize++\n"),
 ],
 "M15_array_init_retains_indexes": [
    ("array/base.go", "\ta.Cnt = int32(len(index))\n", "\ta.Cnt = int32(len(index))\n\ta.Offsets = index\n"),
 ],
})
EXPECT.update({
 "M01_write_through_local_alias": [["C11", "trie.(*SlimTrie).getLeafIndex/frame#store"]],
 "M02_iterator_closure_writes_trie": [["C11", "trie.(*SlimTrie).newIter$2/frame#store"]],
 "M03_encoder_decode_caches_in_receiver": [["C11", "encode.(*TypeEncoder).Decode/frame#store"]],
 "M04_tree_callback_writes_trie": [["C11", "trie.(*slimTrieStringly).NodeInfo/frame#store"]],
 "M05_get_records_in_global_map": [["C11", "trie.(*SlimTrie).Get/frame#store"]],
 "M06_newslimtrie_retains_keys_slice": [["C20", "trie.NewSlimTrie/escape#"]],
 "M07_build_scribbles_value_bytes": [["C20", "trie.newToKeep/frame#store"]],
 "M08_unmarshal_retains_reader": [["C20", "trie.(*SlimTrie).Unmarshal/escape#"]],
 "M09_stat_sorts_shared_levels": [["C11", "trie.(*SlimTrie).Stat/frame#call"]],
 "M10_helper_writes_into_slice_param": [["C11", "trie.lower/frame#store"]],
 "M11_append_in_place_on_shared": [["C11", "trie.(*SlimTrie).getIthLeaf/frame#call"]],
 "M12_deferred_and_go_writes": [["C11", "trie.(*SlimTrie).GetI8$1/frame#store"], ["C11", "trie.(*SlimTrie).initVars/frame#store"]],
 "M13_method_value_writes": [["C11", "trie.(*SlimTrie).initLevels/frame#store"]],
 "M14_write_via_struct_copy_holding_pointer": [["C11", "trie.(*SlimTrie).GetI64/frame#store"]],
 "M15_array_init_retains_indexes": [["C20", "array.(*Base).InitIndex/escape#"]],
})

MUTANTS.update({
 "M16_recursive_helper_writes_trie": [
    ("trie/slimtrie_query.go", "func (st *SlimTrie) rightMost(idx int32) int32 {\n",
     "func (st *SlimTrie) descendRight(idx int32, qr *querySession, depth int32) int32 {\n\tst.getNode(idx, qr)\n\tif qr.isInner == 0 {\n\t\tif depth > 3 {\n\t\t\tst.vars.ShortMask |= 0\n\t\t}\n\t\treturn idx\n\t}\n\tr0, bit := bitmap.Rank128(st.inner.Inners.Words, st.inner.Inners.RankIndex, qr.to-1)\n\treturn st.descendRightB(r0+bit, qr, depth)\n}\n\nfunc (st *SlimTrie) descendRightB(idx int32, qr *querySession, depth int32) int32 {\n\treturn st.descendRight(idx, qr, depth+1)\n}\n\nfunc (st *SlimTrie) rightMost(idx int32) int32 {\n\tif idx >= 0 {\n\t\treturn st.descendRight(idx, &querySession{}, 0)\n\t}\n"),
 ],
 "M17_atomic_hit_counter_in_trie": [
    field("\thits int64"),
    ("trie/slimtrie_query.go", "import (\n\t\"bytes\"\n", "import (\n\t\"bytes\"\n\t\"sync/atomic\"\n"),
    ("trie/slimtrie_query.go", "\teqID := st.GetID(key)\n\n\tif eqID == -1 {\n\t\treturn nil, false\n\t}\n\n\tv := st.getLeaf(eqID)\n", "\teqID := st.GetID(key)\n\tatomic.AddInt64(&st.hits, 1)\n\n\tif eqID == -1 {\n\t\treturn nil, false\n\t}\n\n\tv := st.getLeaf(eqID)\n"),
 ],
 "M18_once_guarded_lazy_levels": [
    field("\tonce sync.Once"),
    ("trie/slimtrie.go", "import (\n\t\"fmt\"\n", "import (\n\t\"fmt\"\n\t\"sync\"\n"),
    ("trie/slimtrie_stat.go", "\tns := st.inner\n\n\trst := &Stat{}\n", "\tst.once.Do(st.initLevels)\n\tns := st.inner\n\n\trst := &Stat{}\n"),
 ],
 "M19_reflect_write_into_trie": [
    ("trie/slimtrie_stat.go", "package trie\n", "package trie\n\nimport \"reflect\"\n"),
    ("trie/slimtrie_stat.go", "\tns := st.inner\n\n\trst := &Stat{}\n", "\treflect.ValueOf(st.vars).Elem().Field(0).SetInt(0)\n\tns := st.inner\n\n\trst := &Stat{}\n"),
 ],
 "M20_scanfromto_closure_writes_value_bytes": [
    ("trie/slimtrie_scan.go", "\t\t// stop the scanning if it reaches the ending boundary.\n", "\t\tif len(v) > 0 {\n\t\t\tv[0] |= 0\n\t\t}\n\t\t// stop the scanning if it reaches the ending boundary.\n"),
 ],
})
EXPECT.update({
 "M16_recursive_helper_writes_trie": [["C11", "trie.(*SlimTrie).descendRight/frame#store"]],
 "M17_atomic_hit_counter_in_trie": [["C11", "trie.(*SlimTrie).Get/frame#call"]],
 "M18_once_guarded_lazy_levels": [["C11", "trie.(*SlimTrie).Stat/frame#call"], ["C11", "trie.(*SlimTrie).initLevels/frame#store"]],
 "M19_reflect_write_into_trie": [["C11", "trie.(*SlimTrie).Stat/frame#call"]],
 "M20_scanfromto_closure_writes_value_bytes": [["C11", "trie.(*SlimTrie).ScanFromTo$1/frame#store"]],
})

REFACTORS.update({
 "R12_session_in_wrapper_struct": [
    ("trie/slimtrie_query.go", "// Get the value of the specified key from SlimTrie.\n",
     "type queryCtx struct {\n\tqr   *querySession\n\tdone bool\n}\n\nfunc (c *queryCtx) finish() {\n\tc.qr.isInner = 0\n\tc.done = true\n}\n\n// Get the value of the specified key from SlimTrie.\n"),
    getid("\tctx := &queryCtx{qr: &querySession{keyBitLen: l, key: key}}\n\tdefer ctx.finish()\n\tqr := ctx.qr\n"),
 ],
 "R13_stat_sorts_its_own_result": [
    ("trie/slimtrie_stat.go", "package trie\n", "package trie\n\nimport \"sort\"\n"),
    ("trie/slimtrie_stat.go", "\trst.NodeCnt = st.levels[level_cnt-1].total\n", "\trst.NodeCnt = st.levels[level_cnt-1].total\n\tsort.SliceStable(rst.Levels, func(i, j int) bool { return rst.Levels[i].Total < rst.Levels[j].Total })\n"),
 ],
 "R14_sessions_in_a_slice_and_closure_reset": [
    getid("\tsessions := make([]querySession, 2)\n\tqr := &sessions[1]\n\treset := func() {\n\t\tqr.keyBitLen = l\n\t\tqr.key = key\n\t}\n\treset()\n"),
 ],
 "R15_leftmost_recursive_shared_fresh_session": [
    ("trie/slimtrie_query.go", "func (st *SlimTrie) rightMost(idx int32) int32 {\n",
     "func (st *SlimTrie) descendRight(idx int32, qr *querySession) int32 {\n\tst.getNode(idx, qr)\n\tif qr.isInner == 0 {\n\t\treturn idx\n\t}\n\tr0, bit := bitmap.Rank128(st.inner.Inners.Words, st.inner.Inners.RankIndex, qr.to-1)\n\treturn st.descendRight(r0+bit, qr)\n}\n\nfunc (st *SlimTrie) rightMost(idx int32) int32 {\n\tif idx >= 0 {\n\t\treturn st.descendRight(idx, &querySession{})\n\t}\n"),
 ],
 "R16_iterator_state_in_heap_struct": [
    ("trie/slimtrie_scan.go", "// next moves cursor to the next available label",
     "type iterScratch struct {\n\tcalls int\n\tlast  []byte\n}\n\nfunc (s *iterScratch) note(k []byte) {\n\ts.calls++\n\ts.last = append(s.last[:0], k...)\n}\n\n// next moves cursor to the next available label"),
    ("trie/slimtrie_scan.go", "\tbuf := make([]byte, 0, 64)\n\tbufBitIdx := int32(0)\n", "\tbuf := make([]byte, 0, 64)\n\tscratch := &iterScratch{}\n\tbufBitIdx := int32(0)\n"),
    ("trie/slimtrie_scan.go", "\t\t// remove leaf from the stack and walk to next.\n\t\tstackIdx = next(stack, stackIdx)\n", "\t\t// remove leaf from the stack and walk to next.\n\t\tscratch.note(buf)\n\t\tstackIdx = next(stack, stackIdx)\n"),
 ],
 "R17_build_sorts_private_copy_of_values": [
    ("trie/slimtrie_create.go", "\ttokeep := make([]bool, n)\n", "\ttokeep := make([]bool, n)\n\tprivate := make([][]byte, len(values))\n\tfor i := range values {\n\t\tprivate[i] = append([]byte(nil), values[i]...)\n\t\tif len(private[i]) > 0 {\n\t\t\tprivate[i][0] ^= 0\n\t\t}\n\t}\n"),
 ],
})

REFACTORS.update({
 "R18_stringly_counts_visits_in_its_own_state": [
    ("trie/slimtrie_str.go", "\tlabels map[int32]map[string]int32\n}", "\tlabels map[int32]map[string]int32\n\tvisits int\n}"),
    ("trie/slimtrie_str.go", "func (s *slimTrieStringly) NodeID(node interface{}) string {\n", "func (s *slimTrieStringly) NodeID(node interface{}) string {\n\ts.visits++\n"),
 ],
 "R19_single_key_iterator_as_method_value": [
    ("trie/slimtrie_scan.go", "// next moves cursor to the next available label",
     "type singleIter struct {\n\tst        *SlimTrie\n\tnodeId    int32\n\twithValue bool\n\tconsumed  bool\n\tbuf       []byte\n}\n\nfunc (it *singleIter) next() ([]byte, []byte) {\n\tif it.consumed {\n\t\treturn nil, nil\n\t}\n\tvar val []byte\n\tqr := &querySession{}\n\tit.st.getNode(it.nodeId, qr)\n\tif qr.hasLeafPrefix {\n\t\tit.buf = append(it.buf, qr.leafPrefix...)\n\t}\n\tif it.withValue {\n\t\tleafI, _ := it.st.getLeafIndex(it.nodeId)\n\t\tval = it.st.getIthLeafBytes(leafI)\n\t}\n\tit.consumed = true\n\treturn it.buf, val\n}\n\n// next moves cursor to the next available label"),
    ("trie/slimtrie_scan.go", "\t\t\tconsumed := false\n\t\t\tnodeId := path[0]\n\n\t\t\treturn func() ([]byte, []byte) {\n\t\t\t\tif consumed {\n\t\t\t\t\treturn nil, nil\n\t\t\t\t}\n\n\t\t\t\tvar val []byte\n\t\t\t\tqr := &querySession{}\n\t\t\t\tst.getNode(nodeId, qr)\n\t\t\t\tif qr.hasLeafPrefix {\n\t\t\t\t\tbuf = append(buf, qr.leafPrefix...)\n\t\t\t\t}\n\t\t\t\tif withValue {\n\t\t\t\t\tleafI, _ := st.getLeafIndex(nodeId)\n\t\t\t\t\tval = st.getIthLeafBytes(leafI)\n\t\t\t\t}\n\n\t\t\t\tconsumed = true\n\t\t\t\treturn buf, val\n\t\t\t}\n",
     "\t\t\tit := &singleIter{st: st, nodeId: path[0], withValue: withValue, buf: buf}\n\t\t\treturn it.next\n"),
 ],
 "R20_unmarshal_decodes_into_local_then_publishes": [
    ("trie/slimtrie_marshal.go", "\t\t_, _, err := pbcmpl.Unmarshal(reader, st.inner)\n\t\tif err != nil {\n\t\t\treturn errors.WithMessage(err, \"failed to unmarshal inner\")\n\t\t}\n",
     "\t\tinner := &Slim{}\n\t\t_, _, err := pbcmpl.Unmarshal(reader, inner)\n\t\tif err != nil {\n\t\t\treturn errors.WithMessage(err, \"failed to unmarshal inner\")\n\t\t}\n\t\tst.inner = inner\n"),
 ],
 "R21_opts_merged_in_a_loop": [
    ("trie/slimtrie.go", "\tif len(opts) > 0 {\n\t\topt = opts[0]\n\t}\n", "\tfor i, o := range opts {\n\t\tif i == 0 {\n\t\t\topt = o\n\t\t}\n\t}\n"),
 ],
})
# a mutant twin of R19: the method-value iterator writes the trie
MUTANTS.update({
 "M21_method_value_iterator_writes_trie": REFACTORS["R19_single_key_iterator_as_method_value"] + [
    ("trie/slimtrie_vars.go", "// initVars initialize internal st.vars\n", "func (it *singleIter) mark() { it.st.vars.ShortMask |= 0 }\n\n// initVars initialize internal st.vars\n"),
 ],
})
MUTANTS["M21_method_value_iterator_writes_trie"][0] = (MUTANTS["M21_method_value_iterator_writes_trie"][0][0], MUTANTS["M21_method_value_iterator_writes_trie"][0][1], MUTANTS["M21_method_value_iterator_writes_trie"][0][2].replace("\tit.consumed = true\n\treturn it.buf, val\n", "\tit.consumed = true\n\tit.mark()\n\treturn it.buf, val\n"))
EXPECT.update({"M21_method_value_iterator_writes_trie": [["C11", "trie.(*singleIter).mark/frame#store"]]})

def main():
    import json
    for sub, table in (("mutants", MUTANTS), ("refactors", REFACTORS)):
        d = os.path.join(HERE, sub)
        os.makedirs(d, exist_ok=True)
        for f in os.listdir(d):
            if f.endswith(".patch"):
                os.remove(os.path.join(d, f))
        for name, edits in table.items():
            open(os.path.join(d, name + ".patch"), "w").write(patch(edits))
    exp = {name + ".patch": [{"property": p, "expect_failed_prefix": pre} for p, pre in v] for name, v in EXPECT.items()}
    json.dump(exp, open(os.path.join(HERE, "mutants", "expect.json"), "w"), indent=1)
    print("wrote %d mutants, %d refactors" % (len(MUTANTS), len(REFACTORS)))

main()
