#!/usr/bin/env python3
"""Bounded contract-check back end (DESIGN.md section 6.3).

usage: run.py <PROP> [--tier quick|thorough] [--out <file.json>] [--replay <file.json>]

env:  VERIF_REPO        root of the tree to test (default /repo); rebuilt from its working tree on every run
      VERIF_SEED        integer seed of every random choice (default 1)
      VERIF_TIER        default tier (default quick)
      VERIF_REPLAY_DIR  where replay files of failures are written (default /verif/evidence/replay/)
      VERIF_BOUNDED_PROCS        cores used (GOMAXPROCS of go test and worker goroutines of the injected test), default 8
      VERIF_BOUNDED_GOTESTFLAGS  optional extra `go test` flags (e.g. "-race", "-gcflags=all=-N")
      VERIF_BOUNDED_PART         development knob: only the cases of this kind (exh, shape, legacy ...)

exit: 0 no failure, 1 at least one failure (BOUNDED-FAIL lines + REPLAY <path>), 2 infrastructure error.

The property-level postconditions are evaluated against the REAL functions by
in-package test files injected with `go test -overlay`; nothing is written
into the repository.  Everything runs offline.
"""
import atexit
import hashlib
import json
import os
import re
import shutil
import signal
import subprocess
import sys
import time

HERE = os.path.dirname(os.path.abspath(__file__))
SRC = os.path.join(HERE, "src")

# property -> list of (package dir relative to the repo root)
PACKAGES = {
    "C01": ["trie"], "C02": ["trie"], "C03": ["trie"], "C04": ["trie"], "C05": ["trie"],
    "C06": ["trie"], "C07": ["trie"], "C08": ["trie"], "C09": ["trie"], "C10": ["trie"],
    "C11": ["trie"], "C12": ["index"], "C13": ["trie"], "C14": ["trie"], "C15": ["encode"],
    "C16": ["array"], "C17": ["trie"], "C18": ["trie"], "C19": ["trie"], "C20": ["trie"],
}
RACE = {"C11"}
TIMEOUT = {"quick": 900, "thorough": 3600}


CHILD = None


def kill_child():
    """terminate the go test process group (go test + the test binary)"""
    c = CHILD
    if c is not None and c.poll() is None:
        try:
            os.killpg(c.pid, signal.SIGKILL)
        except Exception:  # noqa
            pass
        try:
            c.wait(timeout=10)
        except Exception:  # noqa
            pass


def on_signal(signum, frame):
    kill_child()
    sys.exit(2)  # runs the atexit cleanup of the temp dir


def procs():
    try:
        n = int(os.environ.get("VERIF_BOUNDED_PROCS", "8") or "8")
    except ValueError:
        n = 8
    return max(1, min(n, os.cpu_count() or 1))


def die(msg, code=2):
    sys.stderr.write("bounded/run.py: %s\n" % msg)
    sys.exit(code)


def parse_args(argv):
    prop, tier, out, replay = None, os.environ.get("VERIF_TIER", "quick") or "quick", None, None
    i = 0
    while i < len(argv):
        a = argv[i]
        if a == "--tier":
            tier = argv[i + 1]; i += 2
        elif a.startswith("--tier="):
            tier = a.split("=", 1)[1]; i += 1
        elif a == "--out":
            out = argv[i + 1]; i += 2
        elif a.startswith("--out="):
            out = a.split("=", 1)[1]; i += 1
        elif a == "--replay":
            replay = argv[i + 1]; i += 2
        elif a.startswith("--replay="):
            replay = a.split("=", 1)[1]; i += 1
        elif a in ("-h", "--help"):
            print(__doc__); sys.exit(0)
        elif prop is None:
            prop = a; i += 1
        else:
            die("unexpected argument %r" % a)
    if prop is None:
        die("usage: run.py <PROP> [--tier quick|thorough] [--out f.json] [--replay f.json]")
    prop = prop.upper()
    if prop not in PACKAGES:
        die("unknown property %r" % prop)
    if tier not in TIMEOUT:
        die("unknown tier %r" % tier)
    return prop, tier, out, replay


def make_overlay(tmp, repo, pkg):
    """overlay = shared helpers (package name substituted) + every file of src/<pkg>/"""
    replace = {}
    shared = open(os.path.join(SRC, "shared", "shared.go.txt")).read()
    pkgname = pkg.split("/")[-1]
    sp = os.path.join(tmp, "%s_shared.go" % pkgname)
    with open(sp, "w") as f:
        f.write(shared.replace("PKGNAME", pkgname))
    replace[os.path.join(repo, pkg, "zz_verif_bounded_shared_test.go")] = sp
    d = os.path.join(SRC, pkg)
    for fn in sorted(os.listdir(d)):
        if fn.endswith(".go.txt"):
            name = fn[:-len(".go.txt")]
            replace[os.path.join(repo, pkg, "zz_verif_bounded_%s_test.go" % name)] = os.path.join(d, fn)
    ov = os.path.join(tmp, "overlay_%s.json" % pkgname)
    with open(ov, "w") as f:
        json.dump({"Replace": replace}, f, indent=1)
    return ov


def run_pkg(tmp, repo, prop, tier, seed, pkg, replay_input):
    ov = make_overlay(tmp, repo, pkg)
    out = os.path.join(tmp, "out_%s.json" % pkg.replace("/", "_"))
    gotmp = os.path.join(tmp, "gotmp")
    os.makedirs(gotmp, exist_ok=True)
    env = dict(os.environ)
    env.update({
        "GOFLAGS": "-mod=mod", "GOPROXY": "off", "GOSUMDB": "off", "GOTOOLCHAIN": "local",
        "VERIF_BOUNDED_OUT": out, "VERIF_TIER": tier, "VERIF_SEED": str(seed),
        "VERIF_BOUNDED_REPLAY": replay_input or "", "TMPDIR": gotmp, "GOTMPDIR": gotmp,
    })
    # many small short-lived allocations on 16 workers: a large GC target halves the wall time;
    # the soft memory limit keeps the test process at about 4 GB
    # CPU cap: the machine is shared.  At most VERIF_BOUNDED_PROCS cores (default 8) for the go tool and
    # for the worker pool of the injected test (it starts GOMAXPROCS workers); one package at a time.
    env["GOMAXPROCS"] = str(procs())
    env.setdefault("GOGC", "1500")
    env.setdefault("GOMEMLIMIT", "4GiB")
    to = TIMEOUT[tier]
    cmd = ["go", "test", "-p", "1", "-parallel", str(procs()), "-overlay", ov, "-vet=off", "-count=1", "-timeout", "%ds" % to,
           "-run", "^TestVerifBounded_%s$" % prop]
    if prop in RACE:
        cmd.append("-race")
    # optional extra go test flags, e.g. VERIF_BOUNDED_GOTESTFLAGS="-race" or "-gcflags=all=-N"
    extra = os.environ.get("VERIF_BOUNDED_GOTESTFLAGS", "").split()
    cmd += [x for x in extra if x not in cmd]
    cmd.append("./%s/" % pkg)
    global CHILD
    CHILD = subprocess.Popen(cmd, cwd=repo, env=env, stdout=subprocess.PIPE, stderr=subprocess.STDOUT,
                             universal_newlines=True, errors="replace", start_new_session=True)
    try:
        text, _ = CHILD.communicate(timeout=to + 120)
        rc = CHILD.returncode
    except subprocess.TimeoutExpired:
        kill_child()
        return None, "go test did not finish within %d s" % (to + 120), 2
    finally:
        CHILD = None
    res = None
    if os.path.exists(out):
        try:
            res = json.load(open(out))
        except Exception as e:  # noqa
            return None, "unreadable result file: %s" % e, 2
    if res is not None:
        res["go_test_rc"] = rc
        if rc != 0 and not res.get("failures") and "WARNING: DATA RACE" in text:
            # -race reported a data race although every answer was right: that IS the violation of a
            # race-freedom property (seed C11-a1: a sync.Pool of iterator buffers shared between readers)
            i = text.index("WARNING: DATA RACE")
            res["failures"] = [{"clause": "race-free under concurrent readers (go test -race)",
                                "desc": "the race detector reported a data race: " + " | ".join(l.strip() for l in text[i:i + 1500].splitlines()[:14]),
                                "input": {"prop": prop, "kind": "no-failing-input-found", "tier": tier, "seed": seed,
                                          "s": {"race_report": text[i:i + 4000], "note": "schedule-dependent: re-run the quick check (same seed) to reproduce"}}}]
            res["failure_count"] = 1
        if rc != 0 and not res.get("failures"):
            # the test binary failed for a reason that is not a recorded property failure
            return None, "go test failed (rc=%d) although no property failure was recorded:\n%s" % (rc, text[-3000:]), 2
        return res, text, 0
    # no result file
    if "[build failed]" in text or "[setup failed]" in text or re.search(r"^# ", text, re.M):
        return None, "compile error of the injected test:\n" + text[-4000:], 2
    if "panic: test timed out" in text:
        return None, "go test timeout (%d s):\n%s" % (to, text[-1500:]), 2
    if "no tests to run" in text:
        return None, "no bounded test for %s in ./%s/" % (prop, pkg), 2
    m = re.search(r"^(fatal error: .*|panic: .*)$", text, re.M)
    if m and rc != 0:
        # an unrecoverable crash inside the code under test (e.g. stack exhaustion)
        res = {"property": prop, "tier": tier, "seed": seed, "domain": "(run crashed)", "cases": 0, "units": 0,
               "distinct_nontrivial": 0, "rule": "", "samples": [], "exhaustive": False, "package": pkg,
               "failures": [{"clause": "totality/crash", "desc": "test process crashed: " + m.group(1)[:300],
                             "input": {"prop": prop, "kind": "no-failing-input-found", "s": {"output_tail": text[-2000:]}}}],
               "failure_count": 1}
        return res, text, 0
    return None, "missing output of the injected test (rc=%d):\n%s" % (rc, text[-3000:]), 2


def merge(results, prop, tier, seed):
    if len(results) == 1:
        return results[0]
    m = {"property": prop, "tier": tier, "seed": seed, "domain": " || ".join(r["domain"] for r in results),
         "cases": sum(r["cases"] for r in results), "units": sum(r.get("units", 0) for r in results),
         "distinct_nontrivial": sum(r["distinct_nontrivial"] for r in results),
         "rule": " || ".join(r["rule"] for r in results), "samples": [], "failures": [],
         "failure_count": sum(r.get("failure_count", len(r["failures"])) for r in results),
         "exhaustive": all(r["exhaustive"] for r in results), "coverage": {}, "package": ",".join(r.get("package", "") for r in results)}
    for r in results:
        m["samples"] += r["samples"]
        m["failures"] += r["failures"]
        m["coverage"].update(r.get("coverage") or {})
    return m


def main():
    prop, tier, out, replay = parse_args(sys.argv[1:])
    repo = os.path.abspath(os.environ.get("VERIF_REPO", "/repo") or "/repo")
    if not os.path.isdir(os.path.join(repo, "trie")):
        die("VERIF_REPO=%s is not a slim source tree" % repo)
    try:
        seed = int(os.environ.get("VERIF_SEED", "1") or "1")
    except ValueError:
        die("VERIF_SEED must be an integer")
    replay_dir = os.environ.get("VERIF_REPLAY_DIR", "/verif/evidence/replay/") or "/verif/evidence/replay/"

    signal.signal(signal.SIGTERM, on_signal)
    signal.signal(signal.SIGINT, on_signal)
    signal.signal(signal.SIGHUP, on_signal)
    tmp = subprocess.check_output(["mktemp", "-d"], universal_newlines=True).strip()
    atexit.register(lambda: shutil.rmtree(tmp, ignore_errors=True))

    replay_input = None
    pkgs = PACKAGES[prop]
    if replay:
        try:
            rj = json.load(open(replay))
        except Exception as e:  # noqa
            die("cannot read replay file %s: %s" % (replay, e))
        if rj.get("property", prop) != prop:
            die("replay file is for %s, not %s" % (rj.get("property"), prop))
        if (rj.get("input") or {}).get("kind") == "no-failing-input-found":
            die("replay file carries no failing input (crash record)")
        replay_input = os.path.join(tmp, "replay_input.json")
        with open(replay_input, "w") as f:
            json.dump({"input": rj["input"]}, f)
        if rj.get("package"):
            pkgs = [rj["package"]]
        tier = (rj.get("input") or {}).get("tier") or tier

    t0 = time.time()
    results = []
    for pkg in pkgs:
        res, text, code = run_pkg(tmp, repo, prop, tier, seed, pkg, replay_input)
        if res is None:
            sys.stderr.write("BOUNDED-INFRA %s %s\n" % (prop, text))
            sys.exit(2)
        results.append(res)
    merged = merge(results, prop, tier, seed)
    merged["wall_s"] = round(time.time() - t0, 2)
    merged["procs"] = procs()
    merged["repo"] = repo
    if replay:
        merged["replay_of"] = os.path.abspath(replay)

    failures = merged.get("failures") or []
    if failures and not replay:
        os.makedirs(replay_dir, exist_ok=True)
        first = failures[0]
        blob = json.dumps(first, sort_keys=True).encode()
        name = "bounded_%s_%s_seed%d_%s.json" % (prop, tier, seed, hashlib.sha1(blob).hexdigest()[:10])
        path = os.path.join(replay_dir, name)
        with open(path, "w") as f:
            json.dump({"property": prop, "backend": "bounded", "tier": tier, "seed": seed,
                       "package": (first.get("input") or {}).get("package") or merged.get("package", pkgs[0]).split(",")[0],
                       "clause": first["clause"], "desc": first["desc"], "input": first["input"],
                       "replay_cmd": "%s %s --replay %s" % (os.path.join(HERE, "run.py"), prop, path)}, f, indent=1)
        merged["replay_file"] = path
    if out:
        d = os.path.dirname(os.path.abspath(out))
        os.makedirs(d, exist_ok=True)
        with open(out, "w") as f:
            json.dump(merged, f, indent=1)

    for fl in failures[:5]:
        desc = " ".join(str(fl.get("desc", "")).split())
        print("BOUNDED-FAIL %s %s %s" % (prop, str(fl.get("clause", "?")).replace(" ", "_"), desc[:400]))
    if failures:
        if merged.get("replay_file"):
            print("REPLAY %s" % merged["replay_file"])
        n = merged.get("failure_count", len(failures))
        print("bounded %s %s: %d failure(s), %d cases, %.1f s" % (prop, tier, n, merged["cases"], merged["wall_s"]))
        sys.exit(1)
    print("bounded %s %s: ok, %d cases, %d units, %d distinct non-trivial, %.1f s%s" % (
        prop, tier, merged["cases"], merged.get("units", 0), merged["distinct_nontrivial"], merged["wall_s"],
        " (replay passes)" if replay else ""))
    sys.exit(0)


if __name__ == "__main__":
    main()
