#!/bin/bash
# Self-test of the bounded back end: seeded mutants (m1..m10) of the code under test must
# be caught (exit 1 + BOUNDED-FAIL + REPLAY) by the named properties, the replay
# file must still fail on the mutant and pass on the clean tree, and an
# unmodified copy must pass.  Every mutant is applied to a scratch copy
# (cp -r $SRC /tmp/bd_scratch_<id>), run through VERIF_REPO, and deleted.
#
# usage: selftest.sh [mutant-id ...]        (default: all)
# env:   BD_SELFTEST_SRC  tree to copy (default /repo); VERIF_SEED as usual
# exit:  0 = every selected mutant caught by every listed property and the control passed; 1 otherwise
set -u
export GOFLAGS=-mod=mod GOPROXY=off GOSUMDB=off GOTOOLCHAIN=local
HERE="$(cd "$(dirname "$0")" && pwd)"
SRC="${BD_SELFTEST_SRC:-/repo}"
RD="$(mktemp -d)"
export VERIF_REPLAY_DIR="$RD"
trap 'rm -rf "$RD" /tmp/bd_scratch_*' EXIT

# id | properties that must catch it (first one is also replayed) | description
MUTANTS='
m1|C01 C03 C10|getLabelIdxOfKey sign-extends the byte at 257-bit nodes
m2|C01 C02 C18|newToKeep compares only the first 4 value bytes
m3|C07|Unmarshal without st.inner = &Slim{} at the top
m4|C07|legacy path ignores the error of the third pbcmpl.Unmarshal
m5|C01 C03 C10|revert of fix D5: LeafPrefixes.PresenceBM sized by leafCnt
m6|C04|revert of the getGEPath guard fix (D2)
m7|C07|compatibleVersions additionally accepts ==2.0.0
m8|C15 C12|I64.Decode truncates through int32
m9|C11|revert of a0f1d92: lookups call bitstr.StrCmpUpto again (panics in goroutines under -race)
m10|C06|before000510ToNewChildrenArray treats an empty children array as an empty trie (single-key pre-0.5.10 streams load empty; no archived fixture has one key, caught by D-legacy-emul3)
'

apply_mutant() { # $1 = id, $2 = scratch dir
python3 - "$1" "$2" <<'PY'
import sys, re
mid, root = sys.argv[1], sys.argv[2]
def edit(rel, old, new, count=1):
    p = root + "/" + rel
    s = open(p).read()
    if old not in s:
        sys.stderr.write("selftest: pattern for %s not found in %s\n" % (mid, rel)); sys.exit(3)
    s = s.replace(old, new, count)
    open(p, "w").write(s)
if mid == "m1":
    edit("trie/slimtrie_query.go", "ithBit = 1 + int32(qr.key[keyBitIdx>>3])", "ithBit = 1 + int32(int8(qr.key[keyBitIdx>>3]))")
elif mid == "m2":
    edit("trie/slimtrie_create.go", "tokeep[i] = bytes.Compare(values[i-1], values[i]) != 0",
         "a, b := values[i-1], values[i]\n\t\t\tif len(a) > 4 {\n\t\t\t\ta = a[:4]\n\t\t\t}\n\t\t\tif len(b) > 4 {\n\t\t\t\tb = b[:4]\n\t\t\t}\n\t\t\ttokeep[i] = bytes.Compare(a, b) != 0")
elif mid == "m3":
    edit("trie/slimtrie_marshal.go", "\tst.inner = &Slim{}\n\n\treader := bytes.NewReader(buf)", "\treader := bytes.NewReader(buf)")
elif mid == "m4":
    edit("trie/slimtrie_marshal.go", "\t_, _, err = pbcmpl.Unmarshal(reader, leaves)\n\tif err != nil {\n\t\treturn errors.WithMessage(err, \"failed to unmarshal leaves\")\n\t}",
         "\t_, _, _ = pbcmpl.Unmarshal(reader, leaves)")
elif mid == "m5":
    edit("trie/slimtrie_create.go", "newBM(c.leafPrefixIndexes, c.nodeCnt-innerCnt, \"r64\")", "newBM(c.leafPrefixIndexes, c.leafCnt, \"r64\")")
elif mid == "m6":
    edit("trie/slimtrie_scan.go", "st.inner.InnerPrefixes == nil || st.inner.InnerPrefixes.PositionBM == nil || st.inner.LeafPrefixes == nil",
         "st.inner.InnerPrefixes == nil || st.inner.LeafPrefixes == nil")
elif mid == "m7":
    edit("trie/slimtrie.go", "\t\t\"==\" + slimtrieVersion,\n", "\t\t\"==\" + slimtrieVersion,\n\t\t\"==2.0.0\",\n")
elif mid == "m8":
    edit("encode/int.go", "d := int64(binary.LittleEndian.Uint64(s))", "d := int64(int32(binary.LittleEndian.Uint64(s)))")
elif mid == "m9":
    edit("trie/slimtrie_query.go", "\tif n := len(b) - 1; n >= 0 && len(a) > n {\n\t\ta = a[:n]\n\t}\n\treturn bitstr.CmpUpto([]byte(a), b)", "\treturn bitstr.StrCmpUpto(a, b)")
elif mid == "m10":
    edit("trie/slimtrie_marshal.go", "\t\t// rebuild inner\n\n\t\ttype eltType struct {",
         "\t\t// rebuild inner\n\n\t\tif ch.Cnt == 0 {\n\t\t\tst.inner = &Slim{}\n\t\t\tst.init()\n\t\t\treturn\n\t\t}\n\n\t\ttype eltType struct {")
else:
    sys.stderr.write("unknown mutant %s\n" % mid); sys.exit(3)
PY
}

sel="$*"
fail=0
printf '%-4s %-5s %-8s %-8s %-8s %7s  %s\n' id prop caught replayM replayOK wall_s "first BOUNDED-FAIL line"
# control: an unmodified copy passes
S=/tmp/bd_scratch_ctl
rm -rf "$S"; cp -r "$SRC" "$S"
t0=$(date +%s)
out=$(VERIF_REPO="$S" "$HERE/run.py" C07 2>&1); rc=$?
printf '%-4s %-5s %-8s %-8s %-8s %7s  %s\n' ctl C07 "rc=$rc" - - $(( $(date +%s) - t0 )) "$(echo "$out" | tail -1 | cut -c1-110)"
[ $rc -eq 0 ] || fail=1
rm -rf "$S"

while IFS='|' read -r id props desc; do
  [ -z "$id" ] && continue
  if [ -n "$sel" ] && ! echo " $sel " | grep -q " $id "; then continue; fi
  S="/tmp/bd_scratch_$id"
  rm -rf "$S"; cp -r "$SRC" "$S"
  if ! apply_mutant "$id" "$S"; then
    printf '%-4s %-5s %-8s\n' "$id" - "PATCH-FAILED"; fail=1; rm -rf "$S"; continue
  fi
  echo "# $id: $desc"
  first=1
  for p in $props; do
    t0=$(date +%s)
    out=$(VERIF_REPO="$S" "$HERE/run.py" "$p" 2>&1); rc=$?
    wall=$(( $(date +%s) - t0 ))
    line=$(echo "$out" | grep -m1 '^BOUNDED-FAIL' | cut -c1-150)
    rp=$(echo "$out" | grep -m1 '^REPLAY ' | cut -d' ' -f2)
    caught=no; [ $rc -eq 1 ] && [ -n "$line" ] && caught=yes
    rm_=-; rok=-
    if [ $first -eq 1 ] && [ -n "$rp" ] && [ -f "$rp" ]; then
      VERIF_REPO="$S" "$HERE/run.py" "$p" --replay "$rp" >/dev/null 2>&1; r1=$?
      "$HERE/run.py" "$p" --replay "$rp" >/dev/null 2>&1; r2=$?
      rm_="rc=$r1"; rok="rc=$r2"
      [ $r1 -eq 1 ] || fail=1
      [ $r2 -eq 0 ] || fail=1
    fi
    first=0
    [ "$caught" = yes ] || { fail=1; [ $rc -ne 1 ] && line="(rc=$rc) $(echo "$out" | tail -2 | tr '\n' ' ' | cut -c1-120)"; }
    printf '%-4s %-5s %-8s %-8s %-8s %7s  %s\n' "$id" "$p" "$caught" "$rm_" "$rok" "$wall" "$line"
  done
  rm -rf "$S"
done <<< "$MUTANTS"

if [ $fail -eq 0 ]; then echo "SELFTEST OK: every mutant caught, replays reproduce on the mutant and pass on the clean tree"; else echo "SELFTEST FAILED"; fi
exit $fail
