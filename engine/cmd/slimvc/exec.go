package main

import (
	"fmt"
	"go/ast"
	"go/constant"
	"go/token"
	"go/types"
	"math/big"
	"sort"
	"strings"

	"golang.org/x/tools/go/ssa"
)

// ---------------------------------------------------------------------------
// frames, loops, block order

func (f *FuncVC) newFrame(fn *ssa.Function, depth int) *frame {
	fr := &frame{fn: fn, vals: map[ssa.Value]Val{}, locs: map[ssa.Value]*Loc{}, out: map[*ssa.BasicBlock]*State{},
		edge: map[[2]int]string{}, depth: depth, loops: map[*ssa.BasicBlock]*loopInfo{}, discovery: map[*ssa.BasicBlock]bool{},
		allocOf: map[token.Pos]*ssa.Alloc{}, params: map[string]Val{}}
	// reverse postorder ignoring back edges
	seen := map[*ssa.BasicBlock]bool{}
	var post []*ssa.BasicBlock
	var dfs func(b *ssa.BasicBlock)
	dfs = func(b *ssa.BasicBlock) {
		seen[b] = true
		for _, s := range b.Succs {
			if !seen[s] {
				dfs(s)
			}
		}
		post = append(post, b)
	}
	if len(fn.Blocks) > 0 {
		dfs(fn.Blocks[0])
	}
	for i := len(post) - 1; i >= 0; i-- {
		fr.order = append(fr.order, post[i])
	}
	// loops
	for _, b := range fr.order {
		for _, s := range b.Succs {
			if s.Dominates(b) {
				li := fr.loops[s]
				if li == nil {
					li = &loopInfo{header: s, body: map[*ssa.BasicBlock]bool{s: true}}
					fr.loops[s] = li
				}
				li.latch = append(li.latch, b)
				// natural loop body
				stack := []*ssa.BasicBlock{b}
				for len(stack) > 0 {
					x := stack[len(stack)-1]
					stack = stack[:len(stack)-1]
					if li.body[x] {
						continue
					}
					li.body[x] = true
					for _, p := range x.Preds {
						stack = append(stack, p)
					}
				}
			}
		}
	}
	// allocs by declaration position
	for _, b := range fn.Blocks {
		for _, in := range b.Instrs {
			if a, ok := in.(*ssa.Alloc); ok && a.Comment != "" && a.Pos().IsValid() {
				if _, dup := fr.allocOf[a.Pos()]; !dup {
					fr.allocOf[a.Pos()] = a
				}
			}
		}
	}
	// map loops to source ordinals
	if syn := fn.Syntax(); syn != nil {
		var body ast.Node
		switch s := syn.(type) {
		case *ast.FuncDecl:
			body = s.Body
		case *ast.FuncLit:
			body = s.Body
		}
		if body != nil {
			stmts := loopStmts(body)
			for _, li := range fr.loops {
				var ps []token.Pos
				for b := range li.body {
					for _, in := range b.Instrs {
						if _, isDbg := in.(*ssa.DebugRef); isDbg {
							continue
						}
						if p := in.Pos(); p.IsValid() {
							ps = append(ps, p)
						}
					}
				}
				best := -1
				for i, s := range stmts {
					all := true
					for _, p := range ps {
						if p < s.Pos() || p > s.End() {
							all = false
							break
						}
					}
					if all && len(ps) > 0 {
						if best < 0 || (s.Pos() >= stmts[best].Pos() && s.End() <= stmts[best].End()) {
							best = i
						}
					}
				}
				if best >= 0 {
					li.ord = best + 1
					li.pos = stmts[best].Pos()
					// identifiers of loop clauses are resolved inside the loop body (loop variables are in scope there)
					switch ls := stmts[best].(type) {
					case *ast.ForStmt:
						li.pos = ls.Body.Lbrace + 1
					case *ast.RangeStmt:
						li.pos = ls.Body.Lbrace + 1
					}
				}
			}
		}
	}
	return fr
}

type snapshot struct {
	ncmds, nobls, nret, nunsup int
	counters                   map[string]int
	callOrd                    map[string]int
}

func (f *FuncVC) snap(fr *frame) snapshot {
	c := map[string]int{}
	for k, v := range f.counters {
		c[k] = v
	}
	co := map[string]int{}
	for k, v := range f.callOrd {
		co[k] = v
	}
	return snapshot{len(f.cmds), len(f.obls), len(fr.returns), len(f.unsupported), c, co}
}

func (f *FuncVC) rollback(fr *frame, s snapshot) {
	f.cmds = f.cmds[:s.ncmds]
	for k, ce := range f.loadCache {
		if ce.at > s.ncmds {
			delete(f.loadCache, k)
		}
	}
	f.groundDefs = map[string]bool{} // re-emitted on demand (duplicates are harmless)
	for k, nm := range f.predCache {
		if f.predIdx[nm] > s.ncmds {
			delete(f.predCache, k)
		}
	}
	f.obls = f.obls[:s.nobls]
	fr.returns = fr.returns[:s.nret]
	f.unsupported = f.unsupported[:s.nunsup]
	f.counters = s.counters
	f.callOrd = s.callOrd
}

func isBackEdge(from, to *ssa.BasicBlock) bool { return to.Dominates(from) }

func (f *FuncVC) execFrame(fr *frame, entry *State) {
	fr.entry = entry
	f.processBlocks(fr, fr.order, nil, nil, nil)
}

// processBlocks runs the blocks of `order` that are in `member` (nil = all). discHeader, if non-nil, is a loop
// header being executed in discovery mode with in-state discIn.
func (f *FuncVC) processBlocks(fr *frame, order []*ssa.BasicBlock, member map[*ssa.BasicBlock]bool, discHeader *ssa.BasicBlock, discIn *State) {
	for _, b := range order {
		if member != nil && !member[b] {
			continue
		}
		var st *State
		switch {
		case b == discHeader:
			st = discIn.clone()
		case b.Index == 0:
			st = fr.entry.clone()
		default:
			var conds []string
			var sts []*State
			for _, p := range b.Preds {
				if isBackEdge(p, b) {
					continue
				}
				if member != nil && !member[p] {
					continue
				}
				o := fr.out[p]
				if o == nil {
					continue
				}
				c, ok := fr.edge[[2]int{p.Index, b.Index}]
				if !ok {
					continue
				}
				conds = append(conds, c)
				sts = append(sts, o)
			}
			if len(sts) == 0 {
				delete(fr.out, b)
				continue
			}
			st = f.mergeStates(conds, sts, fmt.Sprintf("%s.b%d", fr.label, b.Index))
		}
		if li := fr.loops[b]; li != nil && b != discHeader {
			st = f.loopHead(fr, li, st)
		}
		f.execBlock(fr, b, st)
		fr.out[b] = st
		// back edges
		for _, s := range b.Succs {
			if isBackEdge(b, s) {
				if s == discHeader {
					continue // handled by discovery
				}
				if li := fr.loops[s]; li != nil {
					f.loopLatch(fr, li, b, st)
				}
			}
		}
	}
}

func valDiffers(a, b Val) bool {
	if a.K != b.K || a.T != b.T || a.BVOrig != b.BVOrig || len(a.Elems) != len(b.Elems) {
		return true
	}
	for i := range a.Elems {
		if valDiffers(a.Elems[i], b.Elems[i]) {
			return true
		}
	}
	return false
}

func (f *FuncVC) loopHead(fr *frame, li *loopInfo, entry *State) *State {
	// ---- discovery pass: which cells / heap keys does one iteration change?
	sn := f.snap(fr)
	fr.discovery[li.header] = true
	f.processBlocks(fr, fr.order, li.body, li.header, entry)
	modCells := map[*ssa.Alloc]bool{}
	modHeap := map[string]bool{}
	for _, l := range li.latch {
		o := fr.out[l]
		if o == nil {
			continue
		}
		for a, v := range o.cells {
			if ev, ok := entry.cells[a]; !ok || valDiffers(ev, v) {
				modCells[a] = true
			}
		}
		for k, t := range o.heap {
			if et, ok := entry.heap[k]; ok {
				if et != t {
					modHeap[k] = true
				}
			} else if t != k+"@0" {
				modHeap[k] = true
			}
		}
	}
	epochChanged := false
	for _, l := range li.latch {
		if o := fr.out[l]; o != nil && o.epoch != entry.epoch {
			epochChanged = true
		}
	}
	delete(fr.discovery, li.header)
	f.rollback(fr, sn)
	for b := range li.body {
		delete(fr.out, b)
	}

	// ---- real pass
	if li.spec == nil && fr.contract != nil && li.ord > 0 {
		li.spec = fr.contract.Loops[li.ord]
	}
	spec := li.spec
	label := fmt.Sprintf("loop%d", li.ord)
	if spec != nil {
		for _, inv := range spec.Invariants {
			env := f.loopEnv(fr, entry, li)
			t, err := env.boolExpr(inv.Expr)
			if err != nil {
				f.staleClause(inv, err)
				continue
			}
			o := f.oblig(label+".init", entry, t, li.header.Instrs[0].Pos(), "invariant holds on entry: "+inv.Text)
			o.Pos = f.G.P.posStr(li.pos)
		}
	}
	st := entry.clone()
	var cells []*ssa.Alloc
	for a := range modCells {
		cells = append(cells, a)
	}
	sort.Slice(cells, func(i, j int) bool {
		if cells[i].Pos() != cells[j].Pos() {
			return cells[i].Pos() < cells[j].Pos()
		}
		return cells[i].Name() < cells[j].Name()
	})
	for _, a := range cells {
		et := a.Type().(*types.Pointer).Elem()
		st.cells[a] = f.freshVal(st, "hv."+a.Comment, et)
		if a.Comment == "rangeindex" {
			// the hidden index of a range-over-slice loop starts at -1 and is only ever incremented (go/ssa lowering):
			// a built-in invariant, since contracts cannot name the variable
			if v := st.cells[a]; v.K == KInt {
				f.assumeUnder(st, "(>= "+f.it(v)+" (- 1))")
			}
		}
	}
	var hkeys []string
	for k := range modHeap {
		hkeys = append(hkeys, k)
	}
	sort.Strings(hkeys)
	li.preserved = map[string]string{}
	keep := map[string]*Clause{}
	if spec != nil {
		for _, c := range spec.Preserves {
			for _, k := range strings.FieldsFunc(c.Text, func(r rune) bool { return r == ',' || r == ' ' }) {
				keep[k] = c
			}
		}
	}
	li.freshWr = map[string]string{}
	fw := map[string]*Clause{}
	if spec != nil {
		for _, c := range spec.FreshWr {
			for _, k := range strings.FieldsFunc(c.Text, func(r rune) bool { return r == ',' || r == ' ' }) {
				fw[k] = c
			}
		}
	}
	if epochChanged {
		// the body contains a total havoc: everything is unknown at the head
		f.havocAll(st)
		hkeys = nil
	}
	for _, k := range hkeys {
		if c := keep[k]; c != nil {
			// `loop K preserves k`: not havoced; every latch must show the heap component unchanged
			if srt := f.hsort[k]; srt != "" {
				li.preserved[k] = f.heapGet(st, k, srt)
			} else {
				f.staleClause(c, fmt.Errorf("unknown heap component %s", k))
			}
			continue
		}
		if c := fw[k]; c != nil {
			// `loop K freshwrites k`: arrays that existed at function entry keep their contents; every latch proves it
			srt := f.hsort[k]
			if srt == "" || !strings.HasPrefix(k, "E.") {
				f.staleClause(c, fmt.Errorf("freshwrites needs an element heap E.<sort>, got %s", k))
				f.havocHeapKey(st, k)
				continue
			}
			prev := f.heapGet(st, k, srt)
			al0 := f.heapGet(f.entryState, "alloc", "(Array Int Bool)")
			f.havocHeapKey(st, k)
			cur := f.heapGet(st, k, srt)
			f.assume("(forall ((a Int)) (! (=> (select " + al0 + " a) (= (select " + cur + " a) (select " + prev + " a))) :pattern ((select " + cur + " a))))")
			li.freshWr[k] = cur
			continue
		}
		f.havocHeapKey(st, k)
	}
	if spec != nil {
		for _, inv := range spec.Invariants {
			env := f.loopEnv(fr, st, li)
			t, err := env.boolExpr(inv.Expr)
			if err != nil {
				continue
			}
			f.assumeUnder(st, t)
		}
		for _, u := range spec.Uses {
			env := f.loopEnv(fr, st, li)
			if err := env.useLemma(u.Expr); err != nil {
				f.staleClause(u, err)
			}
		}
		if spec.Decreases != nil {
			env := f.loopEnv(fr, st, li)
			v, _, err := env.expr(spec.Decreases.Expr)
			if err != nil || v.K != KInt {
				f.staleClause(spec.Decreases, fmt.Errorf("decreases: %v", err))
			} else {
				li.variantHead = f.define("variant", "Int", f.it(v))
			}
		}
	}
	li.headState = st.clone()
	if fr.top {
		f.reachProbe("reach.loop", st, li.pos, fmt.Sprintf("the head of loop %d is reachable under the preconditions and its invariants", li.ord))
	}
	return st
}

func (f *FuncVC) havocHeapKey(st *State, k string) {
	srt := f.hsort[k]
	if srt == "" {
		return
	}
	old := f.heapGet(st, k, srt)
	n := f.freshConst(k, srt)
	st.heap[k] = n
	if k == "alloc" {
		f.assume("(forall ((x Int)) (! (=> (select " + old + " x) (select " + n + " x)) :pattern ((select " + n + " x))))")
	}
}

func (f *FuncVC) loopLatch(fr *frame, li *loopInfo, latch *ssa.BasicBlock, st *State) {
	cond, ok := fr.edge[[2]int{latch.Index, li.header.Index}]
	if !ok {
		return
	}
	es := st.clone()
	es.reach = cond
	spec := li.spec
	label := fmt.Sprintf("loop%d", li.ord)
	if spec == nil {
		return
	}
	for _, inv := range spec.Invariants {
		env := f.loopEnv(fr, es, li)
		t, err := env.boolExpr(inv.Expr)
		if err != nil {
			continue
		}
		o := f.oblig(label+".preserve", es, t, li.pos, "invariant preserved: "+inv.Text)
		o.Pos = f.G.P.posStr(li.pos)
	}
	var pk []string
	for k := range li.preserved {
		pk = append(pk, k)
	}
	sort.Strings(pk)
	for _, k := range pk {
		cur := f.heapGet(es, k, f.hsort[k])
		if cur == li.preserved[k] {
			continue
		}
		o := f.oblig(label+".preserves", es, "(= "+cur+" "+li.preserved[k]+")", li.pos, "loop body leaves heap component "+k+" unchanged (every store to it is unreachable)")
		o.Pos = f.G.P.posStr(li.pos)
	}
	var fk []string
	for k := range li.freshWr {
		fk = append(fk, k)
	}
	sort.Strings(fk)
	for _, k := range fk {
		cur := f.heapGet(es, k, f.hsort[k])
		if cur == li.freshWr[k] {
			continue
		}
		al0 := f.heapGet(f.entryState, "alloc", "(Array Int Bool)")
		a := f.freshConst("sk.arr", "Int")
		o := f.oblig(label+".freshwrites", es, "(=> (select "+al0+" "+a+") (= (select "+cur+" "+a+") (select "+li.freshWr[k]+" "+a+")))", li.pos, "loop body writes heap component "+k+" only in arrays allocated since function entry")
		o.Pos = f.G.P.posStr(li.pos)
	}
	if spec.Decreases != nil && li.variantHead != "" {
		env := f.loopEnv(fr, es, li)
		v, _, err := env.expr(spec.Decreases.Expr)
		if err == nil && v.K == KInt {
			o := f.oblig(label+".variant", es, "(and (<= 0 "+li.variantHead+") (< "+f.it(v)+" "+li.variantHead+"))", li.pos, "variant decreases and is bounded: "+spec.Decreases.Text)
			o.Pos = f.G.P.posStr(li.pos)
		}
	}
}

func (f *FuncVC) staleClause(c *Clause, err error) {
	f.stale = append(f.stale, fmt.Sprintf("%s:%d: %s %q: %v", shortFile(c.File), c.Line, c.Kind, c.Text, err))
}

func shortFile(p string) string {
	if i := strings.LastIndex(p, "/"); i >= 0 {
		return p[i+1:]
	}
	return p
}

// ---------------------------------------------------------------------------
// instruction semantics

func (f *FuncVC) execBlock(fr *frame, b *ssa.BasicBlock, st *State) {
	lineGhosts := fr.top && f.C != nil && f.hasLineGhosts()
	curLine := ""
	for _, in := range b.Instrs {
		if lineGhosts {
			if _, dbg := in.(*ssa.DebugRef); !dbg {
				_, isTerm := in.(*ssa.If)
				_, isJump := in.(*ssa.Jump)
				_, isRet := in.(*ssa.Return)
				text := f.G.P.lineText(in.Pos())
				if (text != "" && text != curLine) || isTerm || isJump || isRet {
					if curLine != "" {
						f.fireLineGhosts(fr, st, curLine, in.Pos(), false)
					}
					if text != "" && text != curLine {
						f.fireLineGhosts(fr, st, text, in.Pos(), true)
					}
					if text != "" {
						curLine = text
					}
					if isTerm || isJump || isRet {
						curLine = ""
					}
				}
			}
		}
		f.execInstr(fr, b, in, st)
	}
}

func (f *FuncVC) hasLineGhosts() bool {
	for _, g := range f.C.Ghosts {
		if g.Line != "" {
			return true
		}
	}
	return false
}

func (f *FuncVC) fireLineGhosts(fr *frame, st *State, line string, pos token.Pos, before bool) {
	for _, g := range f.C.Ghosts {
		if g.Line == "" || g.C.Expr == nil || g.Before != before || !strings.Contains(line, g.Line) {
			continue
		}
		f.firedGhosts[g] = true
		env := f.envFor(fr, st, pos)
		switch g.Kind {
		case "use":
			if err := env.useLemma(g.C.Expr); err != nil {
				f.staleClause(g.C, err)
			}
		case "assert":
			t, err := env.boolExpr(g.C.Expr)
			if err != nil {
				f.staleClause(g.C, err)
				continue
			}
			f.oblig("assert", st, t, pos, "ghost assertion: "+g.C.Text)
			f.assumeUnder(st, t)
		}
	}
}

func (f *FuncVC) val(fr *frame, st *State, v ssa.Value) Val {
	switch x := v.(type) {
	case *ssa.Const:
		return f.constVal(x)
	case *ssa.Global:
		l := f.globalLoc(x)
		return f.locAsVal(l, x.Type())
	case *ssa.Function:
		return Val{K: KFunc, T: f.funcConst(x.String()), Typ: x.Type()}
	case *ssa.Builtin:
		return Val{K: KFunc, T: "0"}
	}
	if val, ok := fr.vals[v]; ok {
		return val
	}
	if l, ok := fr.locs[v]; ok {
		return f.locAsVal(l, v.Type())
	}
	if fv, ok := v.(*ssa.FreeVar); ok {
		f.unsupportedf("free variable %s", fv.Name())
		return Val{K: KBad}
	}
	f.unsupportedf("undefined SSA value %s (%T) in %s", v.Name(), v, fr.fn.Name())
	return Val{K: KBad}
}

func (f *FuncVC) funcConst(name string) string {
	n := "fn." + sanitize(name)
	f.declare(n, "Int")
	return n
}

func (f *FuncVC) constVal(c *ssa.Const) Val {
	t := c.Type()
	k, w := kindOfType(t)
	v := Val{K: k, W: w, Typ: t}
	if c.Value == nil {
		return f.zero(t)
	}
	switch k {
	case KInt:
		bi, _ := constant.Val(constant.ToInt(c.Value)).(*big.Int)
		if bi == nil {
			i64, _ := constant.Int64Val(constant.ToInt(c.Value))
			bi = big.NewInt(i64)
		}
		v.T = intLit(bi)
	case KBV:
		bi, _ := constant.Val(constant.ToInt(c.Value)).(*big.Int)
		if bi == nil {
			u64, _ := constant.Uint64Val(constant.ToInt(c.Value))
			bi = new(big.Int).SetUint64(u64)
		}
		v.T = bvLit(bi, w)
		v.IntOrig = new(big.Int).Mod(bi, new(big.Int).Lsh(big.NewInt(1), uint(w))).String()
	case KBool:
		if constant.BoolVal(c.Value) {
			v.T = "true"
		} else {
			v.T = "false"
		}
	case KStr:
		v.T = f.strConst(constant.StringVal(c.Value))
	default:
		f.unsupportedf("constant of type %s", t)
		v.K = KBad
	}
	return v
}

var bitmapTables = map[string]string{
	"Mask": "mask64", "RMask": "rmask64", "Bit": "bit64", "MaskUpto": "maskupto64", "RMaskUpto": "rmaskupto64",
}

func (f *FuncVC) globalLoc(g *ssa.Global) *Loc {
	pt := g.Type().(*types.Pointer).Elem()
	if g.Pkg != nil && g.Pkg.Pkg.Path() == "github.com/openacid/low/bitmap" {
		if tab, ok := bitmapTables[g.Name()]; ok {
			f.assumptions["bitmap."+g.Name()+" table equals its init-time definition and is never written afterwards (checked by the setup-time table test)"] = true
			return &Loc{K: LTable, Table: tab, Typ: pt, N: pt.Underlying().(*types.Array).Len()}
		}
	}
	pk := ""
	if g.Pkg != nil {
		pk = g.Pkg.Pkg.Name() + "."
	}
	return &Loc{K: LGlobal, Key: "G." + pk + g.Name(), Typ: pt}
}

// locOf returns the location designated by a pointer-typed SSA value.
func (f *FuncVC) locOf(fr *frame, st *State, v ssa.Value) *Loc {
	if l, ok := fr.locs[v]; ok {
		return l
	}
	if g, ok := v.(*ssa.Global); ok {
		return f.globalLoc(g)
	}
	pv := f.val(fr, st, v)
	pt, ok := v.Type().Underlying().(*types.Pointer)
	if !ok {
		f.unsupportedf("dereference of non-pointer %s", v.Type())
		return &Loc{K: LHeapCell, Ref: "0", Typ: types.Typ[types.Int]}
	}
	return f.derefLoc(f.termAs(pv, KRef, 0), pt.Elem())
}

func (f *FuncVC) nilCheck(st *State, l *Loc, pos token.Pos, what string) {
	switch l.K {
	case LField, LHeapCell, LObj, LArrObj:
		if strings.HasPrefix(l.Ref, "new.") || strings.HasPrefix(l.Ref, "(eltref ") {
			return
		}
		f.oblig("panic", st, "(not (= "+l.Ref+" 0))", pos, "nil dereference: "+what)
	}
}

func (f *FuncVC) frameCheck(fr *frame, st *State, l *Loc, pos token.Pos, what string) {
	if f.C == nil {
		return
	}
	switch l.K {
	case LCell, LTable:
		return
	}
	goal := f.writable(st, l)
	if goal == "true" {
		return
	}
	f.oblig("frame", st, goal, pos, "write stays within `modifies` or fresh memory: "+what)
}

// isFreshRef: the object was allocated after function entry.
func (f *FuncVC) isFreshRef(ref string) string {
	if strings.HasPrefix(ref, "new.") {
		return "true"
	}
	al := f.entryState.heap["alloc"]
	if al == "" {
		al = "alloc@0"
		f.declare(al, "(Array Int Bool)")
	}
	return "(or (and (> " + ref + " 0) (not (select " + al + " " + ref + "))) (and (< " + ref + " 0) (> (eltref.arr " + ref + ") 0) (not (select " + al + " (eltref.arr " + ref + ")))))"
}

type modLoc struct {
	key string // heap key, or "E:<sortkey>" for elems, "*" any field of object
	ref string
}

func (f *FuncVC) writable(st *State, l *Loc) string {
	var key, ref string
	switch l.K {
	case LField:
		key, ref = l.Key, l.Ref
	case LHeapCell:
		k, w := kindOfType(l.Typ)
		key, ref = "C."+sortKey(k, w), l.Ref
	case LElem:
		k, w := kindOfType(l.Typ)
		key, ref = "E."+sortKey(k, w), l.Ref
	case LObj:
		s := l.Typ.Underlying().(*types.Struct)
		var cs []string
		for i := 0; i < s.NumFields(); i++ {
			cs = append(cs, f.writable(st, f.fieldLoc(l, i)))
		}
		return and(cs...)
	case LGlobal:
		for _, m := range f.modSet {
			if m.key == l.Key {
				return "true"
			}
		}
		return "false"
	default:
		return "true"
	}
	alts := []string{f.isFreshRef(ref)}
	if alts[0] == "true" {
		return "true"
	}
	for _, m := range f.modSet {
		if m.key == key || m.key == "*" {
			alts = append(alts, eq(ref, m.ref))
		}
	}
	return or(alts...)
}

func (f *FuncVC) execInstr(fr *frame, b *ssa.BasicBlock, in ssa.Instruction, st *State) {
	switch x := in.(type) {
	case *ssa.DebugRef:
		return
	case *ssa.Alloc:
		et := x.Type().(*types.Pointer).Elem()
		k, _ := kindOfType(et)
		if !x.Heap && k != KStruct && k != KArrayVal {
			l := &Loc{K: LCell, Alloc: x, Typ: et}
			fr.locs[x] = l
			st.cells[x] = f.zero(et)
			return
		}
		hint := x.Comment
		if hint == "" {
			hint = "obj"
		}
		r := f.newRef(st, hint)
		l := f.derefLoc(r, et)
		fr.locs[x] = l
		f.zeroInit(st, l)
	case *ssa.Store:
		l := f.locOf(fr, st, x.Addr)
		f.nilCheck(st, l, x.Pos(), "store")
		v := f.val(fr, st, x.Val)
		f.frameCheck(fr, st, l, x.Pos(), "store")
		f.store(st, l, v)
	case *ssa.UnOp:
		f.execUnOp(fr, st, x)
	case *ssa.BinOp:
		a := f.val(fr, st, x.X)
		c := f.val(fr, st, x.Y)
		fr.vals[x] = f.binop(st, x.Op, a, c, x.X.Type(), x.Y.Type(), x.Type(), x.Pos())
	case *ssa.Convert:
		fr.vals[x] = f.convert(st, f.val(fr, st, x.X), x.X.Type(), x.Type(), x.Pos())
	case *ssa.ChangeType:
		v := f.val(fr, st, x.X)
		v.Typ = x.Type()
		fr.vals[x] = v
	case *ssa.ChangeInterface:
		fr.vals[x] = f.val(fr, st, x.X)
	case *ssa.MakeInterface:
		fr.vals[x] = f.makeIface(st, f.val(fr, st, x.X), x.X.Type(), x.Type())
	case *ssa.TypeAssert:
		f.execTypeAssert(fr, st, x)
	case *ssa.FieldAddr:
		base := f.locOf(fr, st, x.X)
		f.nilCheck(st, base, x.Pos(), "field "+x.X.Type().String())
		if base.K != LObj {
			f.unsupportedf("FieldAddr on non-struct location in %s", fr.fn.Name())
			fr.locs[x] = &Loc{K: LHeapCell, Ref: "0", Typ: x.Type().(*types.Pointer).Elem()}
			return
		}
		fr.locs[x] = f.fieldLoc(base, x.Field)
	case *ssa.Field:
		v := f.val(fr, st, x.X)
		if v.K != KStruct || x.Field >= len(v.Elems) {
			f.unsupportedf("Field on non-struct value")
			fr.vals[x] = Val{K: KBad}
			return
		}
		fr.vals[x] = v.Elems[x.Field]
	case *ssa.IndexAddr:
		f.execIndexAddr(fr, st, x)
	case *ssa.Index:
		f.execIndex(fr, st, x)
	case *ssa.Lookup:
		f.execLookup(fr, st, x)
	case *ssa.Slice:
		f.execSlice(fr, st, x)
	case *ssa.MakeSlice:
		f.execMakeSlice(fr, st, x)
	case *ssa.MakeMap:
		r := f.newRef(st, "map")
		fr.vals[x] = Val{K: KMap, T: r, Typ: x.Type()}
		f.mapInit(st, r, x.Type())
	case *ssa.MapUpdate:
		f.execMapUpdate(fr, st, x)
	case *ssa.MakeClosure:
		fr.vals[x] = Val{K: KFunc, T: f.funcConst(x.Fn.String()), Typ: x.Type()}
		f.closures[x] = true
	case *ssa.Call:
		f.execCall(fr, st, x)
	case *ssa.Extract:
		t := f.val(fr, st, x.Tuple)
		if t.K != KTuple || x.Index >= len(t.Elems) {
			f.unsupportedf("Extract from non-tuple")
			fr.vals[x] = Val{K: KBad}
			return
		}
		fr.vals[x] = t.Elems[x.Index]
	case *ssa.Phi:
		var conds []string
		var vs []Val
		for i, p := range b.Preds {
			c, ok := fr.edge[[2]int{p.Index, b.Index}]
			if !ok {
				continue
			}
			conds = append(conds, c)
			vs = append(vs, f.val(fr, st, x.Edges[i]))
		}
		if len(vs) == 0 {
			fr.vals[x] = f.zero(x.Type())
			return
		}
		fr.vals[x] = f.mergeVals(conds, vs, "phi")
	case *ssa.If:
		c := f.val(fr, st, x.Cond)
		ct := f.define("c", "Bool", f.termAs(c, KBool, 0))
		fr.edge[[2]int{b.Index, b.Succs[0].Index}] = and(st.reach, ct)
		fr.edge[[2]int{b.Index, b.Succs[1].Index}] = and(st.reach, not(ct))
	case *ssa.Jump:
		fr.edge[[2]int{b.Index, b.Succs[0].Index}] = st.reach
	case *ssa.Return:
		var vs []Val
		for _, r := range x.Results {
			vs = append(vs, f.val(fr, st, r))
		}
		fr.returns = append(fr.returns, retInfo{st: st.clone(), vals: vs})
		if fr.top {
			f.checkPost(fr, st, vs, x.Pos())
		}
	case *ssa.Panic:
		f.execPanic(fr, st, x.Pos(), "explicit panic")
	case *ssa.RunDefers:
		return
	case *ssa.Range, *ssa.Next, *ssa.Defer, *ssa.Go, *ssa.Select, *ssa.Send, *ssa.MakeChan:
		f.unsupportedf("%T in %s", in, fr.fn.Name())
		if v, ok := in.(ssa.Value); ok {
			fr.vals[v] = f.freshVal(st, "unsup", v.Type())
		}
	default:
		f.unsupportedf("instruction %T in %s", in, fr.fn.Name())
		if v, ok := in.(ssa.Value); ok {
			fr.vals[v] = f.freshVal(st, "unsup", v.Type())
		}
	}
}

func (f *FuncVC) execPanic(fr *frame, st *State, pos token.Pos, what string) {
	// a panic is licensed if some `panics P` clause of the contract holds (evaluated in the entry state)
	goal := "false"
	if f.C != nil && fr.top {
		var ps []string
		for _, p := range f.C.Panics {
			env := f.envFor(fr, f.entryState, token.NoPos)
			env.entryParams = true
			t, err := env.boolExpr(p.Expr)
			if err != nil {
				f.staleClause(p, err)
				continue
			}
			ps = append(ps, t)
		}
		goal = or(ps...)
	}
	f.oblig("panic.explicit", st, goal, pos, what+" unreachable (or licensed by a `panics` clause)")
}

func (f *FuncVC) execUnOp(fr *frame, st *State, x *ssa.UnOp) {
	switch x.Op {
	case token.MUL:
		l := f.locOf(fr, st, x.X)
		f.nilCheck(st, l, x.Pos(), "load")
		fr.vals[x] = f.load(st, l)
	case token.NOT:
		v := f.val(fr, st, x.X)
		fr.vals[x] = Val{K: KBool, T: not(f.termAs(v, KBool, 0)), Typ: x.Type()}
	case token.SUB:
		v := f.val(fr, st, x.X)
		if v.K == KInt {
			t := f.define("neg", "Int", "(- "+f.it(v)+")")
			r := Val{K: KInt, T: t, Typ: x.Type()}
			f.overflowCheck(st, r, x.Type(), x.Pos(), "negation")
			fr.vals[x] = r
		} else {
			fr.vals[x] = Val{K: KBV, W: v.W, T: "(bvneg " + v.T + ")", Typ: x.Type()}
		}
	case token.XOR:
		v := f.val(fr, st, x.X)
		if v.K == KInt {
			fr.vals[x] = Val{K: KInt, T: "(- (- " + f.it(v) + ") 1)", Typ: x.Type()}
		} else {
			fr.vals[x] = Val{K: KBV, W: v.W, T: "(bvnot " + v.T + ")", Typ: x.Type()}
		}
	default:
		f.unsupportedf("unary %s", x.Op)
		fr.vals[x] = f.freshVal(st, "unsup", x.Type())
	}
}

func (f *FuncVC) overflowCheck(st *State, v Val, t types.Type, pos token.Pos, what string) {
	k, w := kindOfType(t)
	if k != KInt {
		return
	}
	lo, hi := intRange(w)
	x := f.it(v)
	f.oblig("overflow", st, "(and (<= "+lo+" "+x+") (<= "+x+" "+hi+"))", pos, what+" fits "+t.String())
}

func isPow2Minus1(s string) (int, bool) {
	n, ok := new(big.Int).SetString(s, 10)
	if !ok || n.Sign() < 0 {
		return 0, false
	}
	m := new(big.Int).Add(n, big.NewInt(1))
	if m.BitLen() > 0 && new(big.Int).And(m, n).Sign() == 0 {
		return m.BitLen() - 1, true
	}
	return 0, false
}

func parseIntLit(s string) (*big.Int, bool) {
	if strings.HasPrefix(s, "(- ") && strings.HasSuffix(s, ")") {
		n, ok := new(big.Int).SetString(s[3:len(s)-1], 10)
		if ok {
			return n.Neg(n), true
		}
		return nil, false
	}
	n, ok := new(big.Int).SetString(s, 10)
	return n, ok
}

// intToBV converts an Int-kinded value to a bit-vector of width w (two's complement truncation).
func (f *FuncVC) intToBV(v Val, w int) string {
	if n, ok := parseIntLit(f.it(v)); ok && v.BVOrig == "" {
		return bvLit(n, w)
	}
	if v.BVOrig != "" {
		switch {
		case v.BVW == w:
			return v.BVOrig
		case v.BVW > w:
			return fmt.Sprintf("((_ extract %d 0) %s)", w-1, v.BVOrig)
		default:
			return fmt.Sprintf("((_ sign_extend %d) %s)", w-v.BVW, v.BVOrig)
		}
	}
	return fmt.Sprintf("(i2b%d %s)", w, f.it(v))
}

func (f *FuncVC) bvToInt(t string, w int, signed bool) string {
	if signed {
		return fmt.Sprintf("(s2i%d %s)", w, t)
	}
	return fmt.Sprintf("(u2i%d %s)", w, t)
}

func (f *FuncVC) binop(st *State, op token.Token, a, b Val, ta, tb, tr types.Type, pos token.Pos) Val {
	if a.K == KBad || b.K == KBad {
		return f.freshVal(st, "unsup", tr)
	}
	switch op {
	case token.EQL, token.NEQ:
		t := f.equal(a, b)
		if op == token.NEQ {
			t = not(t)
		}
		return Val{K: KBool, T: t, Typ: tr}
	case token.LSS, token.LEQ, token.GTR, token.GEQ:
		return Val{K: KBool, T: f.compare(op, a, b), Typ: tr}
	case token.LAND:
		return Val{K: KBool, T: and(a.T, b.T), Typ: tr}
	case token.LOR:
		return Val{K: KBool, T: or(a.T, b.T), Typ: tr}
	}
	if a.K == KStr && op == token.ADD {
		// a concatenation is a fresh string about which nothing is known (sound over-approximation:
		// contents and length unconstrained beyond the type invariant)
		return f.freshVal(st, "concat", tr)
	}
	if a.K == KBV {
		return f.bvBinop(st, op, a, b, tr, pos)
	}
	if a.K != KInt {
		f.unsupportedf("binop %s on kind %d", op, a.K)
		return f.freshVal(st, "unsup", tr)
	}
	_, w := kindOfType(tr)
	if w == 0 {
		w = 64
	}
	res := Val{K: KInt, Typ: tr}
	switch op {
	case token.ADD, token.SUB, token.MUL:
		o := map[token.Token]string{token.ADD: "+", token.SUB: "-", token.MUL: "*"}[op]
		res.T = f.define("a", "Int", "("+o+" "+f.it(a)+" "+f.it(b)+")")
		f.overflowCheck(st, res, tr, pos, "result of "+op.String())
		return res
	case token.QUO, token.REM:
		f.oblig("panic", st, "(not (= "+f.it(b)+" 0))", pos, "division by zero")
		fn := "godiv"
		if op == token.REM {
			fn = "gorem"
		}
		if n, ok := parseIntLit(f.it(b)); ok && n.Sign() > 0 {
			// positive constant divisor
			if op == token.QUO {
				res.T = f.define("q", "Int", "(ite (>= "+f.it(a)+" 0) (div "+f.it(a)+" "+n.String()+") (- (div (- "+f.it(a)+") "+n.String()+")))")
			} else {
				res.T = f.define("r", "Int", "(ite (>= "+f.it(a)+" 0) (mod "+f.it(a)+" "+n.String()+") (- (mod (- "+f.it(a)+") "+n.String()+")))")
			}
			return res
		}
		res.T = f.define("q", "Int", "("+fn+" "+f.it(a)+" "+f.it(b)+")")
		if op == token.QUO {
			f.overflowCheck(st, res, tr, pos, "quotient")
		}
		return res
	case token.SHL, token.SHR:
		return f.intShift(st, op, a, b, tr, w, pos)
	case token.AND, token.OR, token.XOR, token.AND_NOT:
		return f.intBitop(st, op, a, b, tr, w)
	}
	f.unsupportedf("binop %s", op)
	return f.freshVal(st, "unsup", tr)
}

// shiftAmount returns an Int term for the (non-negative) shift count.
func (f *FuncVC) shiftAmount(st *State, b Val, pos token.Pos) string {
	if b.K == KBV {
		if b.IntOrig != "" {
			return b.IntOrig
		}
		return fmt.Sprintf("(u2i%d %s)", b.W, b.T)
	}
	f.oblig("panic", st, "(>= "+f.it(b)+" 0)", pos, "negative shift count")
	return f.it(b)
}

func (f *FuncVC) intShift(st *State, op token.Token, a, b Val, tr types.Type, w int, pos token.Pos) Val {
	res := Val{K: KInt, Typ: tr}
	amt := f.shiftAmount(st, b, pos)
	if a.BVOrig != "" && a.BVW == w {
		// exact two's complement semantics in the bit-vector domain
		if n, ok := parseIntLit(amt); ok {
			if n.Cmp(big.NewInt(int64(w))) >= 0 {
				if op == token.SHL {
					res.T = "0"
					return res
				}
				n = big.NewInt(int64(w - 1))
			}
			o := "bvshl"
			if op == token.SHR {
				o = "bvashr"
			}
			res.BVOrig = "(" + o + " " + a.BVOrig + " " + bvLit(n, w) + ")"
			res.BVW = w
			return res
		}
	}
	if n, ok := parseIntLit(amt); ok {
		k := int(n.Int64())
		if n.BitLen() > 16 || k >= w {
			if op == token.SHL {
				res.T = "0"
			} else {
				res.T = "(ite (< " + f.it(a) + " 0) (- 1) 0)"
			}
			return res
		}
		if op == token.SHL {
			res.T = f.define("shl", "Int", "(* "+f.it(a)+" "+pow2(k)+")")
			f.overflowCheck(st, res, tr, pos, "left shift")
		} else {
			res.T = f.define("shr", "Int", "(div "+f.it(a)+" "+pow2(k)+")")
		}
		return res
	}
	// symbolic amount: table over 0..w-1
	p := "0"
	if op == token.SHR {
		p = "(ite (< " + f.it(a) + " 0) (- 1) 0)"
	}
	for k := w - 1; k >= 0; k-- {
		var t string
		if op == token.SHL {
			t = "(* " + f.it(a) + " " + pow2(k) + ")"
		} else {
			t = "(div " + f.it(a) + " " + pow2(k) + ")"
		}
		p = "(ite (= " + amt + " " + fmt.Sprint(k) + ") " + t + " " + p + ")"
	}
	res.T = f.define("sh", "Int", p)
	if op == token.SHL {
		f.overflowCheck(st, res, tr, pos, "left shift")
	}
	return res
}

func (f *FuncVC) intBitop(st *State, op token.Token, a, b Val, tr types.Type, w int) Val {
	res := Val{K: KInt, Typ: tr}
	bvop := map[token.Token]string{token.AND: "bvand", token.OR: "bvor", token.XOR: "bvxor"}
	_, aConst := parseIntLit(a.T)
	bn, bConst := parseIntLit(b.T)
	aBV := a.BVOrig != "" && a.BVW == w
	bBV := b.BVOrig != "" && b.BVW == w
	if (aBV || (aConst && a.BVOrig == "")) && (bBV || (bConst && b.BVOrig == "")) && (aBV || bBV) {
		x, y := f.intToBV(a, w), f.intToBV(b, w)
		if op == token.AND && bConst && b.BVOrig == "" && bn.Cmp(big.NewInt(1)) == 0 {
			// x & 1: give the Int term directly (no conversion function needed)
			res.BVOrig = "(bvand " + x + " " + y + ")"
			res.BVW = w
			res.T = f.define("bit0", "Int", "(ite (= ((_ extract 0 0) "+x+") #b1) 1 0)")
			return res
		}
		if op == token.AND_NOT {
			res.BVOrig = "(bvand " + x + " (bvnot " + y + "))"
		} else {
			res.BVOrig = "(" + bvop[op] + " " + x + " " + y + ")"
		}
		res.BVW = w
		return res
	}
	if bConst && b.BVOrig == "" {
		switch op {
		case token.AND:
			if k, ok := isPow2Minus1(bn.String()); ok && bn.Sign() >= 0 {
				res.T = f.define("and", "Int", "(mod "+f.it(a)+" "+pow2(k)+")")
				return res
			}
			if bn.Sign() < 0 {
				// x & ^(2^k-1)
				m := new(big.Int).Neg(bn)
				m.Sub(m, big.NewInt(1)) // ^bn
				if k, ok := isPow2Minus1(m.String()); ok {
					res.T = f.define("andn", "Int", "(- "+f.it(a)+" (mod "+f.it(a)+" "+pow2(k)+"))")
					return res
				}
			}
		case token.AND_NOT:
			if k, ok := isPow2Minus1(bn.String()); ok && bn.Sign() >= 0 {
				res.T = f.define("andn", "Int", "(- "+f.it(a)+" (mod "+f.it(a)+" "+pow2(k)+"))")
				return res
			}
		}
	}
	// generic: go through bit-vectors
	x, y := f.intToBV(a, w), f.intToBV(b, w)
	if op == token.AND_NOT {
		res.BVOrig = "(bvand " + x + " (bvnot " + y + "))"
	} else {
		res.BVOrig = "(" + bvop[op] + " " + x + " " + y + ")"
	}
	res.BVW = w
	return res
}

func (f *FuncVC) bvBinop(st *State, op token.Token, a, b Val, tr types.Type, pos token.Pos) Val {
	w := a.W
	res := Val{K: KBV, W: w, Typ: tr}
	switch op {
	case token.SHL, token.SHR:
		amt := f.shiftAmount(st, b, pos)
		tab := fmt.Sprintf("shr%di", w)
		o := "bvlshr"
		if op == token.SHL {
			tab = fmt.Sprintf("shl%di", w)
			o = "bvshl"
		}
		if n, ok := parseIntLit(amt); ok {
			if n.Cmp(big.NewInt(int64(w))) >= 0 {
				res.T = bvLit(bigZero, w)
			} else {
				res.T = "(" + o + " " + a.T + " " + bvLit(n, w) + ")"
			}
		} else {
			res.T = "(" + tab + " " + a.T + " " + amt + ")"
		}
		res.T = f.define("bv", sortOf(KBV, w), res.T)
		return res
	}
	if b.K != KBV || b.W != w {
		f.unsupportedf("bit-vector operands of different shapes for %s", op)
		return f.freshVal(st, "unsup", tr)
	}
	ops := map[token.Token]string{token.ADD: "bvadd", token.SUB: "bvsub", token.MUL: "bvmul", token.QUO: "bvudiv", token.REM: "bvurem",
		token.AND: "bvand", token.OR: "bvor", token.XOR: "bvxor"}
	switch op {
	case token.AND_NOT:
		res.T = "(bvand " + a.T + " (bvnot " + b.T + "))"
	case token.QUO, token.REM:
		f.oblig("panic", st, "(not (= "+b.T+" "+bvLit(bigZero, w)+"))", pos, "division by zero")
		res.T = "(" + ops[op] + " " + a.T + " " + b.T + ")"
	default:
		o, ok := ops[op]
		if !ok {
			f.unsupportedf("bit-vector op %s", op)
			return f.freshVal(st, "unsup", tr)
		}
		res.T = "(" + o + " " + a.T + " " + b.T + ")"
	}
	res.T = f.define("bv", sortOf(KBV, w), res.T)
	return res
}

func (f *FuncVC) equal(a, b Val) string {
	switch a.K {
	case KInt:
		if a.BVOrig != "" && b.BVOrig != "" && a.BVW == b.BVW && a.T == "" && b.T == "" {
			return eq(a.BVOrig, b.BVOrig)
		}
		return eq(f.it(a), f.termAs(b, KInt, 0))
	case KStruct, KTuple:
		var cs []string
		for i := range a.Elems {
			if i < len(b.Elems) {
				cs = append(cs, f.equal(a.Elems[i], b.Elems[i]))
			}
		}
		return and(cs...)
	case KSlice:
		// only comparison with nil is legal in Go
		if b.T == "nilslice" {
			return "(= (s.arr " + a.T + ") 0)"
		}
		if a.T == "nilslice" {
			return "(= (s.arr " + b.T + ") 0)"
		}
	case KIface:
		if b.T == "niliface" {
			return "(= (i.tag " + a.T + ") 0)"
		}
		if a.T == "niliface" {
			return "(= (i.tag " + b.T + ") 0)"
		}
	}
	return eq(f.termAs(a, a.K, a.W), f.termAs(b, a.K, a.W))
}

func (f *FuncVC) compare(op token.Token, a, b Val) string {
	switch a.K {
	case KInt:
		o := map[token.Token]string{token.LSS: "<", token.LEQ: "<=", token.GTR: ">", token.GEQ: ">="}[op]
		return "(" + o + " " + f.it(a) + " " + f.termAs(b, KInt, 0) + ")"
	case KBV:
		o := map[token.Token]string{token.LSS: "bvult", token.LEQ: "bvule", token.GTR: "bvugt", token.GEQ: "bvuge"}[op]
		return "(" + o + " " + a.T + " " + b.T + ")"
	case KStr:
		switch op {
		case token.LSS:
			return "(slt " + a.T + " " + b.T + ")"
		case token.GTR:
			return "(slt " + b.T + " " + a.T + ")"
		case token.LEQ:
			return "(not (slt " + b.T + " " + a.T + "))"
		case token.GEQ:
			return "(not (slt " + a.T + " " + b.T + "))"
		}
	}
	f.unsupportedf("comparison on kind %d", a.K)
	return "false"
}

func (f *FuncVC) convert(st *State, v Val, from, to types.Type, pos token.Pos) Val {
	if v.K == KBad {
		return f.freshVal(st, "unsup", to)
	}
	fk, fw := kindOfType(from)
	tk, tw := kindOfType(to)
	res := Val{K: tk, W: tw, Typ: to}
	switch {
	case fk == KInt && tk == KInt:
		if tw >= fw {
			r := v
			r.Typ = to
			if r.BVOrig != "" && r.BVW != tw {
				// keep the Int term, drop the narrower origin (sign extension is implicit in the Int value)
				r.T = f.it(v)
				r.BVOrig = fmt.Sprintf("((_ sign_extend %d) %s)", tw-v.BVW, v.BVOrig)
				r.BVW = tw
			}
			return r
		}
		// narrowing: Go truncates.
		if v.BVOrig != "" {
			res.BVOrig = fmt.Sprintf("((_ extract %d 0) %s)", tw-1, v.BVOrig)
			res.BVW = tw
			return res
		}
		// Treated as value preserving with an obligation that it fits (no intentional truncation of signed ints in this code base).
		res.T = f.it(v)
		f.overflowCheck(st, res, to, pos, "conversion "+from.String()+"→"+to.String())
		return res
	case fk == KBV && tk == KBV:
		switch {
		case tw == fw:
			r := v
			r.Typ = to
			return r
		case tw > fw:
			res.T = fmt.Sprintf("((_ zero_extend %d) %s)", tw-fw, v.T)
			res.IntOrig = v.IntOrig
		default:
			res.T = fmt.Sprintf("((_ extract %d 0) %s)", tw-1, v.T)
			if n, ok := parseIntLit(v.IntOrig); ok && v.IntOrig != "" {
				res.IntOrig = new(big.Int).Mod(n, new(big.Int).Lsh(big.NewInt(1), uint(tw))).String()
			}
		}
		return res
	case fk == KInt && tk == KBV:
		res.T = f.define("cv", sortOf(KBV, tw), f.intToBV(v, tw))
		x := f.it(v)
		if v.T != "" {
			if n, ok := parseIntLit(x); ok {
				res.IntOrig = new(big.Int).Mod(n, new(big.Int).Lsh(big.NewInt(1), uint(tw))).String()
			} else if f.isSmallMod(x, tw) {
				res.IntOrig = x // already reduced modulo something <= 2^tw
			} else {
				res.IntOrig = f.define("cvi", "Int", "(mod "+x+" "+pow2(tw)+")")
			}
		}
		return res
	case fk == KBV && tk == KInt:
		// take low tw bits (zero extend if narrower), interpret signed
		var bv string
		switch {
		case fw == tw:
			bv = v.T
		case fw > tw:
			bv = fmt.Sprintf("((_ extract %d 0) %s)", tw-1, v.T)
		default:
			bv = fmt.Sprintf("((_ zero_extend %d) %s)", tw-fw, v.T)
		}
		res.BVOrig = f.define("cvb", sortOf(KBV, tw), bv)
		res.BVW = tw
		if x, ok := f.isAndOne(v.T, fw); ok {
			// (y & 1) converted to an integer: give the value directly, no conversion function needed
			res.T = f.define("bit0", "Int", "(ite (= ((_ extract 0 0) "+x+") #b1) 1 0)")
			return res
		}
		if fw < tw {
			if v.IntOrig != "" {
				res.T = v.IntOrig
			} else {
				res.T = f.define("cvn", "Int", fmt.Sprintf("(u2i%d %s)", fw, v.T))
			}
		}
		return res
	case fk == KStr && tk == KSlice:
		// []byte(s): fresh array with the bytes of s
		r := f.newRef(st, "bytes")
		key := "E.BV8"
		arr := f.heapGet(st, key, elemArraySort(KBV, 8))
		// the contents are str2arr(s) (prelude: element k is byte k of s for 0 <= k < len; the elements outside the
		// length cannot be observed — every access is bounds-checked): canonical, so that spec functions taking the
		// converted bytes "by content" see the same term for equal strings (spec side: bytesof(s))
		a := "(str2arr " + v.T + ")"
		// r is fresh: the heap at r was never constrained, so initialisation is a fact about the same heap version
		f.assume("(= (select " + arr + " " + r + ") " + a + ")")
		res.T = f.define("sl", "Slice", "(mkslice "+r+" 0 (slen "+v.T+") (slen "+v.T+"))")
		return res
	case fk == KSlice && tk == KStr:
		s := f.freshConst("str", "Str")
		arr := f.heapGet(st, "E.BV8", elemArraySort(KBV, 8))
		f.assume("(= (slen " + s + ") (s.len " + v.T + "))")
		f.assume("(forall ((k Int)) (! (=> (and (<= 0 k) (< k (s.len " + v.T + "))) (= (sat " + s + " k) (select (select " + arr + " (s.arr " + v.T + ")) (+ (s.off " + v.T + ") k)))) :pattern ((sat " + s + " k))))")
		res.T = s
		return res
	case fk == tk && (fk == KRef || fk == KSlice || fk == KStr || fk == KBool || fk == KFunc || fk == KMap):
		r := v
		r.Typ = to
		return r
	}
	f.unsupportedf("conversion %s → %s", from, to)
	return f.freshVal(st, "unsup", to)
}

// ---------------------------------------------------------------------------
// interfaces

func (f *FuncVC) boxFuncs(t types.Type) (string, string, string) {
	k, w := kindOfType(t)
	name := sanitize(types.TypeString(t, func(p *types.Package) string { return p.Name() }))
	box, unbox := "box."+name, "unbox."+name
	srt := sortOf(k, w)
	if !f.declared[box] {
		f.declareFun(box, "("+srt+") Int")
		f.declareFun(unbox, "(Int) "+srt)
		f.decls = append(f.decls, fmt.Sprintf("(assert (forall ((x %s)) (! (= (%s (%s x)) x) :pattern ((%s x)))))", srt, unbox, box, box))
	}
	return box, unbox, srt
}

func (f *FuncVC) makeIface(st *State, v Val, from, to types.Type) Val {
	res := Val{K: KIface, Typ: to}
	if v.K == KIface {
		return v
	}
	tag := f.G.tagOf(from)
	var pay string
	switch v.K {
	case KInt:
		pay = f.it(v)
	case KRef, KFunc, KMap:
		pay = v.T
	case KBool:
		pay = "(ite " + v.T + " 1 0)"
	case KBV, KStr, KSlice:
		box, _, _ := f.boxFuncs(from)
		pay = "(" + box + " " + v.T + ")"
	case KStruct:
		if len(v.Elems) == 0 {
			pay = "0"
		} else if len(v.Elems) == 1 && v.Elems[0].K == KInt {
			pay = f.it(v.Elems[0])
		} else {
			f.unsupportedf("boxing struct %s", from)
			pay = "0"
		}
	default:
		f.unsupportedf("boxing kind %d", v.K)
		pay = "0"
	}
	res.T = f.define("ifc", "Iface", fmt.Sprintf("(mkiface %d %s)", tag, pay))
	return res
}

func (f *FuncVC) unbox(iface string, t types.Type) Val {
	k, w := kindOfType(t)
	res := Val{K: k, W: w, Typ: t}
	pay := "(i.pay " + iface + ")"
	switch k {
	case KInt, KRef, KFunc, KMap:
		res.T = pay
	case KBool:
		res.T = "(= " + pay + " 1)"
	case KBV, KStr, KSlice:
		_, unbox, _ := f.boxFuncs(t)
		res.T = "(" + unbox + " " + pay + ")"
	case KStruct:
		s := t.Underlying().(*types.Struct)
		if s.NumFields() == 0 {
			return res
		}
		if s.NumFields() == 1 {
			if fk, _ := kindOfType(s.Field(0).Type()); fk == KInt {
				res.Elems = []Val{{K: KInt, T: pay, Typ: s.Field(0).Type()}}
				return res
			}
		}
		f.unsupportedf("unboxing struct %s", t)
		res.K = KBad
	default:
		f.unsupportedf("unboxing %s", t)
		res.K = KBad
	}
	return res
}

func (f *FuncVC) execTypeAssert(fr *frame, st *State, x *ssa.TypeAssert) {
	v := f.val(fr, st, x.X)
	if v.K != KIface {
		f.unsupportedf("type assertion on non-interface")
		fr.vals[x] = f.freshVal(st, "unsup", x.Type())
		return
	}
	if types.IsInterface(x.AssertedType) {
		// assertion to an interface type: dynamic method-set check, not modelled precisely
		ok := f.freshConst("implements", "Bool")
		if x.CommaOk {
			fr.vals[x] = Val{K: KTuple, Elems: []Val{{K: KIface, T: ite(ok, v.T, "niliface"), Typ: x.AssertedType}, {K: KBool, T: ok}}}
		} else {
			f.oblig("panic", st, ok, x.Pos(), "interface conversion")
			fr.vals[x] = v
		}
		return
	}
	tag := f.G.tagOf(x.AssertedType)
	isT := fmt.Sprintf("(= (i.tag %s) %d)", v.T, tag)
	u := f.unbox(v.T, x.AssertedType)
	if x.CommaOk {
		z := f.zero(x.AssertedType)
		var r Val
		if u.K == KStruct || u.K == KBad {
			r = u
		} else {
			r = Val{K: u.K, W: u.W, Typ: x.AssertedType, T: ite(isT, f.termAs(u, u.K, u.W), f.termAs(z, u.K, u.W))}
		}
		fr.vals[x] = Val{K: KTuple, Elems: []Val{r, {K: KBool, T: isT}}}
		return
	}
	f.oblig("panic", st, isT, x.Pos(), "type assertion to "+x.AssertedType.String())
	fr.vals[x] = u
}

// ---------------------------------------------------------------------------
// slices, strings, indexing

func (f *FuncVC) sliceElemLoc(s Val, idx string, et types.Type) *Loc {
	abs := addT("(s.off "+s.T+")", idx)
	k, _ := kindOfType(et)
	if k == KStruct {
		return &Loc{K: LObj, Ref: "(eltref (s.arr " + s.T + ") " + abs + ")", Typ: et}
	}
	return &Loc{K: LElem, Ref: "(s.arr " + s.T + ")", Idx: abs, Typ: et}
}

func (f *FuncVC) execIndexAddr(fr *frame, st *State, x *ssa.IndexAddr) {
	iv := f.val(fr, st, x.Index)
	idx := f.indexTerm(iv)
	f.markIndex(idx)
	switch t := x.X.Type().Underlying().(type) {
	case *types.Slice:
		s := f.val(fr, st, x.X)
		f.oblig("panic", st, "(and (<= 0 "+idx+") (< "+idx+" (s.len "+s.T+")))", x.Pos(), "index in range")
		fr.locs[x] = f.sliceElemLoc(s, idx, t.Elem())
	case *types.Pointer:
		arr, ok := t.Elem().Underlying().(*types.Array)
		if !ok {
			f.unsupportedf("IndexAddr on %s", t)
			return
		}
		base := f.locOf(fr, st, x.X)
		f.oblig("panic", st, fmt.Sprintf("(and (<= 0 %s) (< %s %d))", idx, idx, arr.Len()), x.Pos(), "array index in range")
		switch base.K {
		case LTable:
			fr.locs[x] = &Loc{K: LTable, Table: base.Table, Idx: idx, Typ: arr.Elem()}
		case LArrObj:
			f.nilCheck(st, base, x.Pos(), "array")
			k, _ := kindOfType(arr.Elem())
			if k == KStruct {
				if strings.HasPrefix(base.Ref, "(eltref ") || strings.HasPrefix(base.Ref, "-") {
					// element objects are one level deep only: typeInv states that the base of a negative reference is
					// a (positive) allocated object
					f.unsupportedf("struct element of an array that is itself inside an element object")
				}
				fr.locs[x] = &Loc{K: LObj, Ref: "(eltref " + base.Ref + " " + idx + ")", Typ: arr.Elem()}
			} else {
				fr.locs[x] = &Loc{K: LElem, Ref: base.Ref, Idx: idx, Typ: arr.Elem()}
			}
		default:
			f.unsupportedf("IndexAddr on array location kind %d", base.K)
			fr.locs[x] = &Loc{K: LElem, Ref: "0", Idx: idx, Typ: arr.Elem()}
		}
	default:
		f.unsupportedf("IndexAddr on %s", x.X.Type())
	}
}

func (f *FuncVC) indexTerm(iv Val) string {
	if iv.K == KBV {
		if iv.IntOrig != "" {
			return iv.IntOrig
		}
		return fmt.Sprintf("(u2i%d %s)", iv.W, iv.T)
	}
	return f.it(iv)
}

func (f *FuncVC) execIndex(fr *frame, st *State, x *ssa.Index) {
	iv := f.val(fr, st, x.Index)
	idx := f.indexTerm(iv)
	f.markIndex(idx)
	v := f.val(fr, st, x.X)
	switch v.K {
	case KStr:
		f.oblig("panic", st, "(and (<= 0 "+idx+") (< "+idx+" (slen "+v.T+")))", x.Pos(), "string index in range")
		fr.vals[x] = Val{K: KBV, W: 8, Typ: x.Type(), T: f.define("ch", "(_ BitVec 8)", "(sat "+v.T+" "+idx+")")}
	case KArrayVal:
		if n, ok := parseIntLit(idx); ok && int(n.Int64()) < len(v.Elems) {
			fr.vals[x] = v.Elems[n.Int64()]
			return
		}
		f.unsupportedf("symbolic index into array value")
		fr.vals[x] = f.freshVal(st, "unsup", x.Type())
	default:
		f.unsupportedf("Index on kind %d", v.K)
		fr.vals[x] = f.freshVal(st, "unsup", x.Type())
	}
}

func (f *FuncVC) execLookup(fr *frame, st *State, x *ssa.Lookup) {
	v := f.val(fr, st, x.X)
	if v.K == KStr {
		iv := f.val(fr, st, x.Index)
		idx := f.indexTerm(iv)
		f.oblig("panic", st, "(and (<= 0 "+idx+") (< "+idx+" (slen "+v.T+")))", x.Pos(), "string index in range")
		fr.vals[x] = Val{K: KBV, W: 8, Typ: x.Type(), T: f.define("ch", "(_ BitVec 8)", "(sat "+v.T+" "+idx+")")}
		return
	}
	f.execMapLookup(fr, st, x, v)
}

func (f *FuncVC) execSlice(fr *frame, st *State, x *ssa.Slice) {
	get := func(v ssa.Value) string {
		if v == nil {
			return ""
		}
		return f.indexTerm(f.val(fr, st, v))
	}
	lo, hi, mx := get(x.Low), get(x.High), get(x.Max)
	if lo == "" {
		lo = "0"
	}
	switch t := x.X.Type().Underlying().(type) {
	case *types.Slice:
		s := f.val(fr, st, x.X)
		if hi == "" {
			hi = "(s.len " + s.T + ")"
		}
		capT := "(s.cap " + s.T + ")"
		if mx == "" {
			mx = capT
		}
		f.oblig("panic", st, "(and (<= 0 "+lo+") (<= "+lo+" "+hi+") (<= "+hi+" "+mx+") (<= "+mx+" "+capT+"))", x.Pos(), "slice bounds in range")
		// a[lo:hi] of a nil slice with lo=hi=0 stays nil; arr is kept
		fr.vals[x] = Val{K: KSlice, Typ: x.Type(), T: f.define("sl", "Slice", "(mkslice (s.arr "+s.T+") "+addT("(s.off "+s.T+")", lo)+" "+subT(hi, lo)+" "+subT(mx, lo)+")")}
	case *types.Basic: // string
		s := f.val(fr, st, x.X)
		if hi == "" {
			hi = "(slen " + s.T + ")"
		}
		f.oblig("panic", st, "(and (<= 0 "+lo+") (<= "+lo+" "+hi+") (<= "+hi+" (slen "+s.T+")))", x.Pos(), "string slice bounds in range")
		fr.vals[x] = Val{K: KStr, Typ: x.Type(), T: f.define("ss", "Str", "(ssub "+s.T+" "+lo+" "+hi+")")}
	case *types.Pointer:
		arr, ok := t.Elem().Underlying().(*types.Array)
		if !ok {
			f.unsupportedf("Slice on %s", t)
			fr.vals[x] = f.freshVal(st, "unsup", x.Type())
			return
		}
		base := f.locOf(fr, st, x.X)
		if base.K != LArrObj {
			f.unsupportedf("Slice on array location kind %d", base.K)
			fr.vals[x] = f.freshVal(st, "unsup", x.Type())
			return
		}
		n := fmt.Sprint(arr.Len())
		if hi == "" {
			hi = n
		}
		if mx == "" {
			mx = n
		}
		f.oblig("panic", st, "(and (<= 0 "+lo+") (<= "+lo+" "+hi+") (<= "+hi+" "+mx+") (<= "+mx+" "+n+"))", x.Pos(), "slice bounds in range")
		fr.vals[x] = Val{K: KSlice, Typ: x.Type(), T: f.define("sl", "Slice", "(mkslice "+base.Ref+" "+lo+" "+subT(hi, lo)+" "+subT(mx, lo)+")")}
		if lo == "0" && hi == "1" {
			f.knownLen1[fr.vals[x].T] = true
		}
	default:
		f.unsupportedf("Slice on %s", x.X.Type())
		fr.vals[x] = f.freshVal(st, "unsup", x.Type())
	}
}

func (f *FuncVC) execMakeSlice(fr *frame, st *State, x *ssa.MakeSlice) {
	ln := f.indexTerm(f.val(fr, st, x.Len))
	cp := f.indexTerm(f.val(fr, st, x.Cap))
	f.oblig("panic", st, "(and (<= 0 "+ln+") (<= "+ln+" "+cp+"))", x.Pos(), "makeslice: len and cap in range")
	et := x.Type().Underlying().(*types.Slice).Elem()
	r := f.newRef(st, "make")
	k, w := kindOfType(et)
	if k != KStruct && k != KArrayVal && k != KBad {
		key := "E." + sortKey(k, w)
		arr := f.heapGet(st, key, elemArraySort(k, w))
		z := f.zero(et)
		f.assume(f.allEqual("(select "+arr+" "+r+")", k, w, z.T))
	} else if k == KStruct {
		f.zeroStructElems(st, r, et)
	}
	fr.vals[x] = Val{K: KSlice, Typ: x.Type(), T: f.define("mk", "Slice", "(mkslice "+r+" 0 "+ln+" "+cp+")")}
}

// zeroStructElems states that all fields of all element objects of a fresh array are zero.
func (f *FuncVC) zeroStructElems(st *State, arr string, et types.Type) {
	s := et.Underlying().(*types.Struct)
	for i := 0; i < s.NumFields(); i++ {
		ft := s.Field(i).Type()
		k, w := kindOfType(ft)
		if k == KStruct || k == KArrayVal || k == KBad {
			continue
		}
		key := fieldKey(et, i)
		old := f.heapGet(st, key, fieldArraySort(k, w))
		n := f.freshConst(key, fieldArraySort(k, w))
		st.heap[key] = n
		z := f.zero(ft)
		f.assume("(forall ((r Int)) (! (= (select " + n + " r) (ite (and (< r 0) (= (eltref.arr r) " + arr + ")) " + z.T + " (select " + old + " r))) :pattern ((select " + n + " r))))")
	}
}

func addT(a, b string) string {
	if b == "0" {
		return a
	}
	if a == "0" {
		return b
	}
	return "(+ " + a + " " + b + ")"
}

func subT(a, b string) string {
	if b == "0" {
		return a
	}
	x, ok1 := parseIntLit(a)
	y, ok2 := parseIntLit(b)
	if ok1 && ok2 {
		return intLit(new(big.Int).Sub(x, y))
	}
	return "(- " + a + " " + b + ")"
}

// isSmallMod reports whether an Int term is syntactically (mod y m) with 0 < m <= 2^w.
func (f *FuncVC) isSmallMod(x string, w int) bool {
	t := x
	if d, ok := f.defs[x]; ok {
		t = d
	}
	if !strings.HasPrefix(t, "(mod ") || !strings.HasSuffix(t, ")") {
		return false
	}
	i := strings.LastIndex(t, " ")
	if i < 0 {
		return false
	}
	m, ok := new(big.Int).SetString(t[i+1:len(t)-1], 10)
	if !ok || m.Sign() <= 0 {
		return false
	}
	return m.Cmp(new(big.Int).Lsh(big.NewInt(1), uint(w))) <= 0
}

// isAndOne recognises (bvand X 1) / (bvand 1 X) (through named definitions) and returns X.
func (f *FuncVC) isAndOne(t string, w int) (string, bool) {
	if d, ok := f.defs[t]; ok {
		t = d
	}
	if !strings.HasPrefix(t, "(bvand ") || !strings.HasSuffix(t, ")") {
		return "", false
	}
	one := bvLit(big.NewInt(1), w)
	body := t[7 : len(t)-1]
	if strings.HasSuffix(body, " "+one) {
		x := body[:len(body)-len(one)-1]
		if balanced(x) {
			return x, true
		}
	}
	if strings.HasPrefix(body, one+" ") {
		x := body[len(one)+1:]
		if balanced(x) {
			return x, true
		}
	}
	return "", false
}

// loopEnv is envFor at a loop's position plus the contract-only name `rangeidx`: the hidden index variable of a
// range-over-slice/string loop (go/ssa "rangeindex" cell: -1 before the first iteration, k-1... at the cut point the
// header has not yet incremented it, so it is the index of the iteration just finished, or -1).
func (f *FuncVC) loopEnv(fr *frame, st *State, li *loopInfo) *Env {
	env := f.envFor(fr, st, li.pos)
	for _, in := range li.header.Instrs {
		if s, ok := in.(*ssa.Store); ok {
			if a, ok := s.Addr.(*ssa.Alloc); ok && a.Comment == "rangeindex" {
				if v, ok := st.cells[a]; ok {
					env.vars["rangeidx"] = v
					env.vtypes["rangeidx"] = types.Typ[types.Int]
				}
			}
		}
	}
	return env
}
