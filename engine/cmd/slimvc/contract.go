package main

import (
	"fmt"
	"go/ast"
	"go/parser"
	"os"
	"path/filepath"
	"regexp"
	"strconv"
	"strings"
)

// Clause is one requires/ensures/invariant/... line of a contract.
type Clause struct {
	Kind string // requires ensures panics invariant decreases use assert modifies
	Text string // original text (for reporting)
	Expr ast.Expr
	File string
	Line int
}

// GhostClause is a hint attached to a program point: "after Callee#k use lemma(args)" or "after Callee#k assert expr".
type GhostClause struct {
	Before bool   // fire before (instead of after) the instructions of the matching line
	Line   string // "at" ghosts: fragment of the source line after which the hint applies
	Callee string
	Ord    int
	Kind   string // use | assert
	C      *Clause
}

type LoopSpec struct {
	Invariants []*Clause
	Decreases  *Clause
	Uses       []*Clause
	Preserves  []*Clause // heap keys that no reachable store of the body changes (checked at every latch)
	FreshWr    []*Clause // heap keys (E.*) the body writes only in arrays allocated since function entry (checked at every latch)
	Unroll     int
}

type Contract struct {
	Pkg       string // import path the contract applies to
	PkgName   string
	Name      string // "(*SlimTrie).getNode" as written
	Key       string // resolved function key, e.g. "trie.(*SlimTrie).getNode"
	Props     []string
	Requires  []*Clause
	Ensures   []*Clause
	Defines   []*Clause // naming clauses: assumed by callers, not checked in the body (pure functions named by a spec function)
	Panics    []*Clause
	Modifies  []*Clause
	ModNone   bool
	HasMod    bool
	Pure      bool
	Uses      []*Clause
	Loops     map[int]*LoopSpec
	AssumeDep string // non-empty: contract is assumed (reason text)
	Havoc     string // non-empty: the function is not verified and callers assume NOTHING about it (every heap component havoced)
	Inline    bool   // always inline this function instead of using a contract
	NoBody    bool   // verify nothing; contract only used at call sites (assumed)
	Allocates bool
	Opts      map[string]string
	File      string
	Line      int
	Results   []string        // optional result names given as "results a b"
	Opaque    map[string]bool // predicates that are passed along but never unfolded in this function's VCs
	Ghosts    []*GhostClause
	Split     *Clause // "split <int expr> lo hi": obligations may be discharged per value of the expression
	SplitLo   int
	SplitHi   int
}

type PredDecl struct {
	Macro  bool
	Name   string
	Params []ParamDecl
	Body   ast.Expr
	Text   string
	Pkg    string
	File   string
	Line   int
}

type ParamDecl struct {
	Name     string
	TypeExpr ast.Expr
	TypeText string
}

type SpecDecl struct {
	Name    string
	Params  []ParamDecl
	ResText string
	ResExpr ast.Expr
	Pkg     string
}

type LemmaDecl struct {
	Name     string
	Params   []ParamDecl
	Requires []string
	Ensures  []string
	Proof    string
	Pkg      string
	File     string
	Line     int
}

type ContractSet struct {
	ByKey      map[string]*Contract
	Lemmas     map[string]*LemmaDecl
	LemmaOrder []string
	Preds      map[string]*PredDecl
	Specs      map[string]*SpecDecl
	Files      []string
	Errors     []string
}

var clauseKeywords = map[string]bool{
	"property": true, "requires": true, "ensures": true, "panics": true, "modifies": true,
	"pure": true, "loop": true, "use": true, "assume-dep": true, "havoc": true, "inline": true, "nobody": true,
	"allocates": true, "opt": true, "results": true, "split": true, "after": true, "at": true, "before": true, "defines": true, "opaque": true,
}

func newContractSet() *ContractSet {
	return &ContractSet{ByKey: map[string]*Contract{}, Preds: map[string]*PredDecl{}, Specs: map[string]*SpecDecl{}, Lemmas: map[string]*LemmaDecl{}}
}

var reFunc = regexp.MustCompile(`^func\s+(.+)$`)

// parseContractFile reads the //@ lines of one file.
func (cs *ContractSet) parseContractFile(path string, defaultPkg, defaultPkgName string) error {
	data, err := os.ReadFile(path)
	if err != nil {
		return err
	}
	cs.Files = append(cs.Files, path)
	pkg, pkgName := defaultPkg, defaultPkgName
	var cur *Contract
	var curLemma *LemmaDecl
	var lemmaText *string
	var lastClause *Clause
	var lastPred *PredDecl
	var pendingText *string // accumulates continuation
	flush := func() {
		if lastClause != nil {
			cs.finishClause(lastClause)
			lastClause = nil
		}
		if lastPred != nil {
			cs.finishPred(lastPred)
			lastPred = nil
		}
		pendingText = nil
	}
	lines := strings.Split(string(data), "\n")
	for ln, raw := range lines {
		t := strings.TrimSpace(raw)
		if strings.HasPrefix(t, "// @") {
			t = "//@" + t[4:] // gofmt rewrites //@ to // @ in doc comments
		}
		if !strings.HasPrefix(t, "//@") {
			continue
		}
		body := strings.TrimSpace(t[3:])
		if body == "" {
			continue
		}
		// strip trailing comment "  // ..."
		if i := strings.Index(body, " // "); i >= 0 {
			body = strings.TrimSpace(body[:i])
		}
		first := body
		rest := ""
		if i := strings.IndexAny(body, " \t"); i >= 0 {
			first, rest = body[:i], strings.TrimSpace(body[i+1:])
		}
		if curLemma != nil {
			switch first {
			case "requires":
				curLemma.Requires = append(curLemma.Requires, rest)
				lemmaText = &curLemma.Requires[len(curLemma.Requires)-1]
				continue
			case "ensures":
				curLemma.Ensures = append(curLemma.Ensures, rest)
				lemmaText = &curLemma.Ensures[len(curLemma.Ensures)-1]
				continue
			case "proof":
				curLemma.Proof = rest
				lemmaText = nil
				continue
			case "package", "func", "predicate", "define", "spec", "lemma":
				cs.finishLemma(curLemma)
				curLemma = nil
				lemmaText = nil
			default:
				if lemmaText != nil {
					*lemmaText += " " + body
					continue
				}
			}
		}
		switch {
		case first == "lemma":
			flush()
			pd, err := parsePredHeader(rest + " = true")
			if err != nil {
				cs.Errors = append(cs.Errors, fmt.Sprintf("%s:%d: %v", path, ln+1, err))
				continue
			}
			curLemma = &LemmaDecl{Name: pd.Name, Params: pd.Params, Pkg: pkg, File: path, Line: ln + 1}
			cur = nil
			continue
		case first == "package":
			flush()
			pkg = rest
			pkgName = rest
			if i := strings.LastIndex(rest, "/"); i >= 0 {
				pkgName = rest[i+1:]
			}
			cur = nil
			continue
		case first == "func":
			flush()
			cur = &Contract{Pkg: pkg, PkgName: pkgName, Name: rest, Loops: map[int]*LoopSpec{}, File: path, Line: ln + 1, Opts: map[string]string{}}
			cur.Key = pkgName + "." + rest
			if _, dup := cs.ByKey[cur.Key]; dup {
				cs.Errors = append(cs.Errors, fmt.Sprintf("%s:%d: duplicate contract for %s", path, ln+1, cur.Key))
			}
			cs.ByKey[cur.Key] = cur
			continue
		case first == "predicate" || first == "define":
			flush()
			pd, err := parsePredHeader(rest)
			if err != nil {
				cs.Errors = append(cs.Errors, fmt.Sprintf("%s:%d: %v", path, ln+1, err))
				continue
			}
			pd.Pkg = pkg
			pd.File = path
			pd.Line = ln + 1
			pd.Macro = first == "define"
			lastPred = pd
			pendingText = &pd.Text
			cur = nil
			continue
		case first == "spec":
			flush()
			sd, err := parseSpecHeader(rest)
			if err != nil {
				cs.Errors = append(cs.Errors, fmt.Sprintf("%s:%d: %v", path, ln+1, err))
				continue
			}
			sd.Pkg = pkg
			cs.Specs[sd.Name] = sd
			cur = nil
			continue
		}
		if !clauseKeywords[first] {
			// continuation line
			if pendingText != nil {
				*pendingText += " " + body
				continue
			}
			cs.Errors = append(cs.Errors, fmt.Sprintf("%s:%d: unexpected line %q", path, ln+1, body))
			continue
		}
		if cur == nil {
			cs.Errors = append(cs.Errors, fmt.Sprintf("%s:%d: clause outside func", path, ln+1))
			continue
		}
		flush()
		switch first {
		case "property":
			cur.Props = append(cur.Props, strings.Fields(rest)...)
		case "pure":
			cur.Pure = true
			cur.ModNone = true
			cur.HasMod = true
		case "inline":
			cur.Inline = true
		case "nobody":
			cur.NoBody = true
		case "allocates":
			cur.Allocates = true
		case "assume-dep":
			cur.AssumeDep = rest
			if cur.AssumeDep == "" {
				cur.AssumeDep = "assumed dependency contract"
			}
		case "havoc":
			cur.Havoc = rest
			if cur.Havoc == "" {
				cur.Havoc = "abstracted by total havoc"
			}
		case "opt":
			kv := strings.SplitN(rest, "=", 2)
			if len(kv) == 2 {
				cur.Opts[strings.TrimSpace(kv[0])] = strings.TrimSpace(kv[1])
			} else {
				cur.Opts[rest] = "true"
			}
		case "at", "before":
			// at|before "source fragment" use|assert TEXT
			if !strings.HasPrefix(rest, "\"") {
				cs.Errors = append(cs.Errors, fmt.Sprintf("%s:%d: at \"fragment\" use|assert ... expected", path, ln+1))
				continue
			}
			end := strings.Index(rest[1:], "\"")
			if end < 0 {
				cs.Errors = append(cs.Errors, fmt.Sprintf("%s:%d: unterminated fragment", path, ln+1))
				continue
			}
			frag := rest[1 : 1+end]
			tail := strings.TrimSpace(rest[2+end:])
			kf := strings.Fields(tail)
			if len(kf) < 2 || (kf[0] != "use" && kf[0] != "assert") {
				cs.Errors = append(cs.Errors, fmt.Sprintf("%s:%d: at \"fragment\" use|assert ... expected", path, ln+1))
				continue
			}
			text := strings.TrimSpace(strings.TrimPrefix(tail, kf[0]))
			c := &Clause{Kind: kf[0], Text: text, File: path, Line: ln + 1}
			cur.Ghosts = append(cur.Ghosts, &GhostClause{Line: frag, Kind: kf[0], C: c, Before: first == "before"})
			lastClause = c
			pendingText = &c.Text
		case "after":
			// after Callee#k use|assert TEXT
			f := strings.Fields(rest)
			if len(f) < 3 || (f[1] != "use" && f[1] != "assert") {
				cs.Errors = append(cs.Errors, fmt.Sprintf("%s:%d: after Callee#k use|assert ... expected", path, ln+1))
				continue
			}
			callee, ord := f[0], 1
			if i := strings.Index(f[0], "#"); i >= 0 {
				callee = f[0][:i]
				ord, _ = strconv.Atoi(f[0][i+1:])
			}
			text := strings.TrimSpace(strings.TrimPrefix(strings.TrimSpace(strings.TrimPrefix(rest, f[0])), f[1]))
			c := &Clause{Kind: f[1], Text: text, File: path, Line: ln + 1}
			cur.Ghosts = append(cur.Ghosts, &GhostClause{Callee: callee, Ord: ord, Kind: f[1], C: c})
			lastClause = c
			pendingText = &c.Text
		case "opaque":
			if cur.Opaque == nil {
				cur.Opaque = map[string]bool{}
			}
			for _, n := range strings.Fields(rest) {
				cur.Opaque[n] = true
			}
		case "results":
			cur.Results = strings.Fields(rest)
		case "split":
			f := strings.Fields(rest)
			if len(f) < 3 {
				cs.Errors = append(cs.Errors, fmt.Sprintf("%s:%d: split <expr> lo hi expected", path, ln+1))
				continue
			}
			lo, err1 := strconv.Atoi(f[len(f)-2])
			hi, err2 := strconv.Atoi(f[len(f)-1])
			if err1 != nil || err2 != nil {
				cs.Errors = append(cs.Errors, fmt.Sprintf("%s:%d: split bounds must be integers", path, ln+1))
				continue
			}
			c := &Clause{Kind: "split", Text: strings.Join(f[:len(f)-2], " "), File: path, Line: ln + 1}
			cs.finishClause(c)
			cur.Split, cur.SplitLo, cur.SplitHi = c, lo, hi
		case "modifies":
			cur.HasMod = true
			if rest == "nothing" {
				cur.ModNone = true
				continue
			}
			c := &Clause{Kind: "modifies", Text: rest, File: path, Line: ln + 1}
			cur.Modifies = append(cur.Modifies, c)
			lastClause = c
			pendingText = &c.Text
		case "requires", "ensures", "panics", "use", "defines":
			c := &Clause{Kind: first, Text: rest, File: path, Line: ln + 1}
			switch first {
			case "requires":
				cur.Requires = append(cur.Requires, c)
			case "ensures":
				cur.Ensures = append(cur.Ensures, c)
			case "defines":
				cur.Defines = append(cur.Defines, c)
			case "panics":
				cur.Panics = append(cur.Panics, c)
			case "use":
				cur.Uses = append(cur.Uses, c)
			}
			lastClause = c
			pendingText = &c.Text
		case "loop":
			// loop K invariant|decreases|use|preserves|unroll TEXT
			f := strings.Fields(rest)
			if len(f) < 2 {
				cs.Errors = append(cs.Errors, fmt.Sprintf("%s:%d: bad loop clause", path, ln+1))
				continue
			}
			k, err := strconv.Atoi(f[0])
			if err != nil {
				cs.Errors = append(cs.Errors, fmt.Sprintf("%s:%d: bad loop ordinal", path, ln+1))
				continue
			}
			ls := cur.Loops[k]
			if ls == nil {
				ls = &LoopSpec{}
				cur.Loops[k] = ls
			}
			text := strings.TrimSpace(strings.TrimPrefix(strings.TrimSpace(strings.TrimPrefix(rest, f[0])), f[1]))
			c := &Clause{Kind: f[1], Text: text, File: path, Line: ln + 1}
			switch f[1] {
			case "invariant":
				ls.Invariants = append(ls.Invariants, c)
			case "decreases":
				ls.Decreases = c
			case "use":
				ls.Uses = append(ls.Uses, c)
			case "preserves":
				ls.Preserves = append(ls.Preserves, c)
			case "freshwrites":
				ls.FreshWr = append(ls.FreshWr, c)
			case "unroll":
				ls.Unroll, _ = strconv.Atoi(text)
				continue
			default:
				cs.Errors = append(cs.Errors, fmt.Sprintf("%s:%d: unknown loop clause %q", path, ln+1, f[1]))
				continue
			}
			lastClause = c
			pendingText = &c.Text
		}
	}
	flush()
	if curLemma != nil {
		cs.finishLemma(curLemma)
	}
	return nil
}

func (cs *ContractSet) finishLemma(l *LemmaDecl) {
	req := "true"
	if len(l.Requires) > 0 {
		req = "(" + strings.Join(l.Requires, ") && (") + ")"
	}
	ens := "(" + strings.Join(l.Ensures, ") && (") + ")"
	text := "impl(" + desugarImpl(req) + ", " + desugarImpl(ens) + ")"
	e, err := parser.ParseExpr(text)
	if err != nil {
		cs.Errors = append(cs.Errors, fmt.Sprintf("%s:%d: lemma %s: %v", l.File, l.Line, l.Name, err))
		return
	}
	cs.Preds["lemma:"+l.Name] = &PredDecl{Name: "lemma:" + l.Name, Params: l.Params, Body: e, Text: text, Pkg: l.Pkg, File: l.File, Line: l.Line}
	cs.Lemmas[l.Name] = l
	cs.LemmaOrder = append(cs.LemmaOrder, l.Name)
}

func (cs *ContractSet) finishClause(c *Clause) {
	if c.Kind == "modifies" {
		// comma separated list of location expressions
		e, err := parser.ParseExpr("mods(" + c.Text + ")")
		if err != nil {
			cs.Errors = append(cs.Errors, fmt.Sprintf("%s:%d: cannot parse modifies %q: %v", c.File, c.Line, c.Text, err))
			return
		}
		c.Expr = e
		return
	}
	e, err := parseSpecExpr(c.Text)
	if err != nil {
		cs.Errors = append(cs.Errors, fmt.Sprintf("%s:%d: cannot parse %q: %v", c.File, c.Line, c.Text, err))
		return
	}
	c.Expr = e
}

func (cs *ContractSet) finishPred(p *PredDecl) {
	e, err := parseSpecExpr(p.Text)
	if err != nil {
		cs.Errors = append(cs.Errors, fmt.Sprintf("%s:%d: predicate %s: %v", p.File, p.Line, p.Name, err))
		return
	}
	p.Body = e
	cs.Preds[p.Name] = p
}

func parseParams(s string) ([]ParamDecl, error) {
	e, err := parser.ParseExpr("func(" + s + ")")
	if err != nil {
		return nil, err
	}
	ft := e.(*ast.FuncType)
	var out []ParamDecl
	for _, f := range ft.Params.List {
		for _, n := range f.Names {
			out = append(out, ParamDecl{Name: n.Name, TypeExpr: f.Type, TypeText: exprText(f.Type)})
		}
	}
	return out, nil
}

// parsePredHeader parses "name(params) = body-start".
func parsePredHeader(s string) (*PredDecl, error) {
	i := strings.Index(s, "(")
	if i < 0 {
		return nil, fmt.Errorf("bad predicate header")
	}
	name := strings.TrimSpace(s[:i])
	depth := 0
	j := i
	for ; j < len(s); j++ {
		if s[j] == '(' {
			depth++
		} else if s[j] == ')' {
			depth--
			if depth == 0 {
				break
			}
		}
	}
	if j >= len(s) {
		return nil, fmt.Errorf("bad predicate header")
	}
	ps, err := parseParams(s[i+1 : j])
	if err != nil {
		return nil, err
	}
	rest := strings.TrimSpace(s[j+1:])
	rest = strings.TrimSpace(strings.TrimPrefix(rest, "="))
	return &PredDecl{Name: name, Params: ps, Text: rest}, nil
}

// parseSpecHeader parses "name(params) restype".
func parseSpecHeader(s string) (*SpecDecl, error) {
	i := strings.Index(s, "(")
	j := strings.LastIndex(s, ")")
	if i < 0 || j < i {
		return nil, fmt.Errorf("bad spec header")
	}
	ps, err := parseParams(s[i+1 : j])
	if err != nil {
		return nil, err
	}
	res := strings.TrimSpace(s[j+1:])
	re, err := parser.ParseExpr(res)
	if err != nil {
		return nil, err
	}
	return &SpecDecl{Name: strings.TrimSpace(s[:i]), Params: ps, ResText: res, ResExpr: re}, nil
}

// parseSpecExpr parses the expression language: Go expressions plus "==>" and "<==>".
func parseSpecExpr(text string) (ast.Expr, error) {
	d := desugarImpl(text)
	return parser.ParseExpr(d)
}

// desugarImpl rewrites every region "A ==> B" into "impl(A, B)" (right assoc.) and
// "A <==> B" into "iff(A, B)". Regions are delimited by brackets and top-level commas.
func desugarImpl(s string) string {
	// find top-level split points in this region
	depth := 0
	inStr := byte(0)
	for i := 0; i < len(s); i++ {
		c := s[i]
		if inStr != 0 {
			if c == '\\' {
				i++
			} else if c == inStr {
				inStr = 0
			}
			continue
		}
		switch c {
		case '"', '\'', '`':
			inStr = c
		case '(', '[', '{':
			depth++
		case ')', ']', '}':
			depth--
		case ',':
			if depth == 0 {
				return desugarImpl(s[:i]) + "," + desugarImpl(s[i+1:])
			}
		}
	}
	// no top-level comma: look for top-level <==> then ==>
	if i := topLevelIndex(s, "<==>"); i >= 0 {
		return "iff(" + desugarImpl(s[:i]) + ", " + desugarImpl(s[i+4:]) + ")"
	}
	if i := topLevelIndex(s, "==>"); i >= 0 {
		return "impl(" + desugarImpl(s[:i]) + ", " + desugarImpl(s[i+3:]) + ")"
	}
	// recurse into bracketed sub-regions
	var b strings.Builder
	depth = 0
	start := -1
	inStr = 0
	for i := 0; i < len(s); i++ {
		c := s[i]
		if inStr != 0 {
			if depth == 0 {
				b.WriteByte(c)
			}
			if c == '\\' && i+1 < len(s) {
				i++
				if depth == 0 {
					b.WriteByte(s[i])
				}
			} else if c == inStr {
				inStr = 0
			}
			continue
		}
		if c == '"' || c == '\'' || c == '`' {
			inStr = c
			if depth == 0 {
				b.WriteByte(c)
			}
			continue
		}
		switch c {
		case '(', '[', '{':
			if depth == 0 {
				b.WriteByte(c)
				start = i + 1
			}
			depth++
		case ')', ']', '}':
			depth--
			if depth == 0 {
				b.WriteString(desugarImpl(s[start:i]))
				b.WriteByte(c)
			}
		default:
			if depth == 0 {
				b.WriteByte(c)
			}
		}
	}
	return b.String()
}

func topLevelIndex(s, op string) int {
	depth := 0
	inStr := byte(0)
	for i := 0; i < len(s); i++ {
		c := s[i]
		if inStr != 0 {
			if c == '\\' {
				i++
			} else if c == inStr {
				inStr = 0
			}
			continue
		}
		switch c {
		case '"', '\'', '`':
			inStr = c
		case '(', '[', '{':
			depth++
		case ')', ']', '}':
			depth--
		}
		if depth == 0 && strings.HasPrefix(s[i:], op) {
			if op == "==>" && i > 0 && s[i-1] == '<' {
				continue
			}
			return i
		}
	}
	return -1
}

func exprText(e ast.Expr) string {
	switch x := e.(type) {
	case *ast.Ident:
		return x.Name
	case *ast.StarExpr:
		return "*" + exprText(x.X)
	case *ast.SelectorExpr:
		return exprText(x.X) + "." + x.Sel.Name
	case *ast.ArrayType:
		if x.Len == nil {
			return "[]" + exprText(x.Elt)
		}
		return "[" + exprText(x.Len) + "]" + exprText(x.Elt)
	case *ast.BasicLit:
		return x.Value
	case *ast.InterfaceType:
		return "interface{}"
	case *ast.ParenExpr:
		return "(" + exprText(x.X) + ")"
	}
	return fmt.Sprintf("%T", e)
}

// loadContracts reads the repo contract files (…/zz_verif_contracts*.go) and dependency contract files.
func loadContracts(P *Program, depsDir string, mirrorDir string) (*ContractSet, []string, error) {
	cs := newContractSet()
	var notes []string
	for _, pat := range repoPatterns {
		dir := filepath.Join(P.Repo, pat)
		files, _ := filepath.Glob(filepath.Join(dir, "zz_verif_contracts*.go"))
		pkgName := filepath.Base(dir)
		pkgPath := "github.com/openacid/slim/" + pkgName
		if len(files) == 0 && mirrorDir != "" {
			files, _ = filepath.Glob(filepath.Join(mirrorDir, pkgName, "zz_verif_contracts*.go"))
			if len(files) > 0 {
				notes = append(notes, "contracts for "+pkgName+" read from mirror (not present in repo)")
			}
		}
		for _, f := range files {
			if err := cs.parseContractFile(f, pkgPath, pkgName); err != nil {
				return nil, nil, err
			}
		}
	}
	if depsDir != "" {
		files, _ := filepath.Glob(filepath.Join(depsDir, "*.contracts"))
		for _, f := range files {
			if err := cs.parseContractFile(f, "", ""); err != nil {
				return nil, nil, err
			}
		}
	}
	return cs, notes, nil
}
