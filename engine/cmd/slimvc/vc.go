package main

import (
	"fmt"
	"go/token"
	"go/types"
	"hash/fnv"
	"math/big"
	"os"
	"path/filepath"
	"sort"
	"strings"

	"golang.org/x/tools/go/ssa"
)

type Obligation struct {
	Name    string   `json:"name"`
	Kind    string   `json:"kind"`
	Func    string   `json:"function"`
	Pos     string   `json:"pos"`
	Src     string   `json:"src,omitempty"`
	Detail  string   `json:"detail,omitempty"`
	Props   []string `json:"properties,omitempty"`
	Status  string   `json:"status"` // discharged failed undecided vacuous
	Backend string   `json:"backend,omitempty"`
	Seconds float64  `json:"seconds"`
	Output  string   `json:"output,omitempty"`
	SMTFile string   `json:"smt_file,omitempty"`
	Model   string   `json:"model,omitempty"`
	Cached  bool     `json:"cached,omitempty"`
	hash    string

	goal      string
	at        int
	ndecl     int
	expectSat bool
	fv        *FuncVC
}

type LocKind int

const (
	LCell LocKind = iota
	LField
	LElem
	LHeapCell
	LObj
	LArrObj
	LTable
	LGlobal
)

type Loc struct {
	K     LocKind
	Alloc *ssa.Alloc
	Ref   string // object ref / array ref
	Key   string // heap key for LField / LGlobal
	Idx   string // absolute element index (LElem) / table index (LTable)
	Typ   types.Type
	Table string
	N     int64 // array length for LArrObj
}

type State struct {
	reach string
	cells map[*ssa.Alloc]Val
	heap  map[string]string
	epoch int // bumped by a total havoc (call of a `havoc` contract): heap components not seen before get a new base version
}

func (s *State) clone() *State {
	n := &State{reach: s.reach, epoch: s.epoch, cells: make(map[*ssa.Alloc]Val, len(s.cells)), heap: make(map[string]string, len(s.heap))}
	for k, v := range s.cells {
		n.cells[k] = v
	}
	for k, v := range s.heap {
		n.heap[k] = v
	}
	return n
}

type retInfo struct {
	st   *State
	vals []Val
}

type loopInfo struct {
	header *ssa.BasicBlock
	body   map[*ssa.BasicBlock]bool
	latch  []*ssa.BasicBlock
	ord    int // source ordinal (1-based), 0 if unknown
	spec   *LoopSpec
	pos    token.Pos
	// per-execution data
	variantHead string
	headState   *State
	preserved   map[string]string // heap key -> version at the loop head (loop K preserves)
	freshWr     map[string]string // heap key -> version at the loop head (loop K freshwrites)
}

type frame struct {
	fn        *ssa.Function
	vals      map[ssa.Value]Val
	locs      map[ssa.Value]*Loc
	out       map[*ssa.BasicBlock]*State
	edge      map[[2]int]string
	returns   []retInfo
	depth     int
	top       bool
	loops     map[*ssa.BasicBlock]*loopInfo
	order     []*ssa.BasicBlock
	discovery map[*ssa.BasicBlock]bool // headers currently in discovery pass
	allocOf   map[token.Pos]*ssa.Alloc
	params    map[string]Val
	contract  *Contract
	label     string
	entry     *State
}

type FuncVC struct {
	probed   map[string]bool
	epochCtr int
	G             *Gen
	Fn            *ssa.Function
	Key           string
	C             *Contract
	decls         []string
	declared      map[string]bool
	cmds          []string
	obls          []*Obligation
	counters      map[string]int
	nfresh        int
	unsupported   []string
	assumptions   map[string]bool
	strConsts     map[string]string
	predCache     map[string]string
	inlined       map[string]bool
	callees       map[string]bool
	stale         []string
	entryState    *State
	hsort         map[string]string
	modSet        []modLoc
	closures      map[ssa.Value]bool
	knownLen1     map[string]bool
	inlineStack   map[*ssa.Function]int
	usedContracts map[string]bool
	usedLemmas    map[string]bool
	noDefine      bool
	exactAll      bool
	qdepth        int
	splitTerm     string
	callOrd       map[string]int
	firedGhosts   map[*GhostClause]bool
	skippedKinds  map[string]int
	stablePreds   map[string]bool
	groundDefs    map[string]bool
	pendingDefs   []string
	marked        map[string]bool
	pendingMarks  []string
	defs          map[string]string // named definitions (for canonical keys)
	loadCache     map[string]cacheEnt
	predIdx       map[string]int
}

type cacheEnt struct {
	name string
	at   int
}

type Gen struct {
	P           *Program
	CS          *ContractSet
	tags        map[string]int
	tagNames    []string
	Prelude     string
	PreludePost string
	ConvUF      string
	ConvExact   string
	PopUF       string
	PopExact    string
	MaxInl      int
}

func (g *Gen) tagOf(t types.Type) int {
	// deterministic across runs and goroutine schedules (queries are cached by their text)
	s := types.TypeString(t, nil)
	h := fnv.New32a()
	h.Write([]byte(s))
	return int(h.Sum32()%1000000000) + 1
}

// ---------------------------------------------------------------------------

func (f *FuncVC) fresh(prefix string) string {
	f.nfresh++
	return fmt.Sprintf("%s!%d", sanitize(prefix), f.nfresh)
}

func (f *FuncVC) declare(name, sort string) {
	if f.declared[name] {
		return
	}
	f.declared[name] = true
	f.decls = append(f.decls, fmt.Sprintf("(declare-const %s %s)", name, sort))
}

func (f *FuncVC) declareFun(name, sig string) {
	if f.declared[name] {
		return
	}
	f.declared[name] = true
	f.decls = append(f.decls, fmt.Sprintf("(declare-fun %s %s)", name, sig))
}

func (f *FuncVC) flushDefs() {
	ds := f.pendingDefs
	f.pendingDefs = nil
	for _, d := range ds {
		f.cmds = append(f.cmds, d)
	}
}

func (f *FuncVC) emit(cmd string) {
	if len(f.pendingDefs) > 0 && !f.noDefine {
		f.flushDefs()
	}
	if len(f.pendingMarks) > 0 && !f.noDefine {
		ms := f.pendingMarks
		f.pendingMarks = nil
		for _, m := range ms {
			f.cmds = append(f.cmds, "(assert (inst! "+m+"))")
		}
	}
	f.cmds = append(f.cmds, cmd)
}

func (f *FuncVC) assume(t string) {
	if t == "true" {
		return
	}
	f.emit("(assert " + t + ")")
}

func (f *FuncVC) assumeUnder(st *State, t string) {
	f.assume(implies(st.reach, t))
}

// define names a term (keeps queries small and readable).
func (f *FuncVC) define(prefix, sort, term string) string {
	if f.noDefine {
		return term
	}
	if len(term) < 24 && !strings.ContainsAny(term, " ") {
		return term
	}
	n := f.fresh(prefix)
	f.emit(fmt.Sprintf("(define-fun %s () %s %s)", n, sort, term))
	f.defs[n] = term
	return n
}

// canon expands all named definitions in a term (used as a canonical cache key).
func (f *FuncVC) canon(term string) string {
	if len(f.defs) == 0 {
		return term
	}
	var b strings.Builder
	i := 0
	for i < len(term) {
		c := term[i]
		if c == '(' || c == ')' || c == ' ' {
			b.WriteByte(c)
			i++
			continue
		}
		j := i
		for j < len(term) && term[j] != '(' && term[j] != ')' && term[j] != ' ' {
			j++
		}
		tok := term[i:j]
		if d, ok := f.defs[tok]; ok {
			b.WriteString(f.canon(d))
		} else {
			b.WriteString(tok)
		}
		i = j
	}
	return b.String()
}

func (f *FuncVC) freshConst(prefix, sort string) string {
	n := f.fresh(prefix)
	f.emit(fmt.Sprintf("(declare-const %s %s)", n, sort))
	return n
}

func (f *FuncVC) oblig(kind string, st *State, goal string, pos token.Pos, detail string) *Obligation {
	if f.C != nil && f.C.Opts["kinds"] != "" && !strings.HasPrefix(kind, "reach") && kind != "split.cover" && !strings.HasPrefix(kind, "loop") && kind != "assert" {
		// this contract claims only some kinds of obligations for the function (stated in the evidence)
		ok := false
		for _, k := range strings.Split(f.C.Opts["kinds"], ",") {
			if kind == strings.TrimSpace(k) {
				ok = true
			}
		}
		if !ok {
			f.skippedKinds[kind]++
			return &Obligation{Name: "skipped", Kind: kind, fv: f}
		}
	}
	f.counters[kind]++
	o := &Obligation{
		Name:   fmt.Sprintf("%s/%s#%d", f.Key, kind, f.counters[kind]),
		Kind:   kind,
		Func:   f.Key,
		Pos:    f.G.P.posStr(pos),
		Src:    f.G.P.lineText(pos),
		Detail: detail,
		goal:   implies(st.reach, goal),
		at:     len(f.cmds),
		ndecl:  len(f.decls),
		fv:     f,
	}
	if f.C != nil {
		o.Props = f.C.Props
	}
	f.obls = append(f.obls, o)
	// A checked obligation is available as a fact afterwards (assert-then-assume): if it fails it is reported,
	// so nothing is lost, and later obligations need not re-derive it.
	if kind == "panic" || strings.HasPrefix(kind, "overflow") || strings.HasPrefix(kind, "pre(") {
		if goal != "false" {
			f.emit("(assert " + implies(st.reach, goal) + ")")
		}
	}
	return o
}

func (f *FuncVC) unsupportedf(format string, a ...interface{}) {
	s := fmt.Sprintf(format, a...)
	for _, u := range f.unsupported {
		if u == s {
			return
		}
	}
	f.unsupported = append(f.unsupported, s)
}

// ---------------------------------------------------------------------------
// heap

func (f *FuncVC) heapGet(st *State, key, sort string) string {
	f.hsort[key] = sort
	if t, ok := st.heap[key]; ok {
		return t
	}
	n := fmt.Sprintf("%s@%d", key, st.epoch)
	f.declare(n, sort)
	st.heap[key] = n
	return n
}

func (f *FuncVC) heapSet(st *State, key, sort, term string) {
	f.hsort[key] = sort
	n := f.fresh(key)
	f.emit(fmt.Sprintf("(define-fun %s () %s %s)", n, sort, term))
	st.heap[key] = n
}

func fieldArraySort(k Kind, w int) string { return "(Array Int " + sortOf(k, w) + ")" }
func elemArraySort(k Kind, w int) string {
	return "(Array Int (Array Int " + sortOf(k, w) + "))"
}

func structKey(t types.Type) string {
	if n, ok := t.(*types.Named); ok {
		obj := n.Obj()
		if obj.Pkg() != nil {
			return obj.Pkg().Name() + "." + obj.Name()
		}
		return obj.Name()
	}
	return sanitize(types.TypeString(t, func(p *types.Package) string { return p.Name() }))
}

func fieldKey(st types.Type, i int) string {
	s := st.Underlying().(*types.Struct)
	return "F." + sanitize(structKey(st)) + "." + s.Field(i).Name()
}

// zero value of a type
func (f *FuncVC) zero(t types.Type) Val {
	k, w := kindOfType(t)
	v := Val{K: k, W: w, Typ: t}
	switch k {
	case KInt, KRef, KFunc, KMap:
		v.T = "0"
	case KBool:
		v.T = "false"
	case KBV:
		v.T = bvLit(bigZero, w)
		v.IntOrig = "0"
	case KStr:
		v.T = f.strConst("")
	case KSlice:
		v.T = "nilslice"
	case KIface:
		v.T = "niliface"
	case KStruct:
		s := t.Underlying().(*types.Struct)
		for i := 0; i < s.NumFields(); i++ {
			v.Elems = append(v.Elems, f.zero(s.Field(i).Type()))
		}
	case KArrayVal:
		a := t.Underlying().(*types.Array)
		if a.Len() <= 16 {
			for i := int64(0); i < a.Len(); i++ {
				v.Elems = append(v.Elems, f.zero(a.Elem()))
			}
		}
	}
	return v
}

func (f *FuncVC) strConst(s string) string {
	if n, ok := f.strConsts[s]; ok {
		return n
	}
	n := fmt.Sprintf("str!%d", len(f.strConsts))
	f.strConsts[s] = n
	f.decls = append(f.decls, fmt.Sprintf("(declare-const %s Str)", n))
	f.decls = append(f.decls, fmt.Sprintf("(assert (= (slen %s) %d))", n, len(s)))
	if len(s) <= 64 {
		for i := 0; i < len(s); i++ {
			f.decls = append(f.decls, fmt.Sprintf("(assert (= (sat %s %d) #x%02x))", n, i, s[i]))
		}
	}
	return n
}

// typeInv returns the Go type invariant of a value as a Bool term.
func (f *FuncVC) typeInv(st *State, v Val, t types.Type) string {
	switch v.K {
	case KInt:
		k, w := kindOfType(t)
		if k == KInt && w > 0 {
			lo, hi := intRange(w)
			x := f.it(v)
			return "(and (<= " + lo + " " + x + ") (<= " + x + " " + hi + "))"
		}
	case KSlice:
		return fmt.Sprintf("(and (<= 0 (s.off %[1]s)) (<= 0 (s.len %[1]s)) (<= (s.len %[1]s) (s.cap %[1]s)) (<= (s.cap %[1]s) 281474976710656) (<= 0 (s.arr %[1]s)) (=> (= (s.arr %[1]s) 0) (= (s.cap %[1]s) 0)) %[2]s)",
			v.T, implies("(not (= (s.arr "+v.T+") 0))", "(select "+f.heapGet(st, "alloc", "(Array Int Bool)")+" (s.arr "+v.T+"))"))
	case KRef:
		if _, ok := t.Underlying().(*types.Pointer); ok {
			al := f.heapGet(st, "alloc", "(Array Int Bool)")
			// negative references address an element object inside an array (eltref, one level deep: nesting is outside
			// the subset, see IndexAddr): the base is a positive, allocated reference
			return "(or (= " + v.T + " 0) (and (> " + v.T + " 0) (select " + al + " " + v.T + ")) (and (< " + v.T + " 0) (> (eltref.arr " + v.T + ") 0) (select " + al + " (eltref.arr " + v.T + "))))"
		}
	case KStruct:
		s, ok := t.Underlying().(*types.Struct)
		if !ok {
			return "true"
		}
		var cs []string
		for i := range v.Elems {
			cs = append(cs, f.typeInv(st, v.Elems[i], s.Field(i).Type()))
		}
		return and(cs...)
	case KTuple:
		tp, ok := t.(*types.Tuple)
		if !ok {
			return "true"
		}
		var cs []string
		for i := range v.Elems {
			cs = append(cs, f.typeInv(st, v.Elems[i], tp.At(i).Type()))
		}
		return and(cs...)
	}
	return "true"
}

// freshVal creates an unconstrained value of Go type t (with type invariant assumed).
func (f *FuncVC) freshVal(st *State, prefix string, t types.Type) Val {
	k, w := kindOfType(t)
	v := Val{K: k, W: w, Typ: t}
	switch k {
	case KStruct:
		s := t.Underlying().(*types.Struct)
		for i := 0; i < s.NumFields(); i++ {
			v.Elems = append(v.Elems, f.freshVal(st, prefix+"."+s.Field(i).Name(), s.Field(i).Type()))
		}
		return v
	case KTuple:
		tp := t.(*types.Tuple)
		for i := 0; i < tp.Len(); i++ {
			v.Elems = append(v.Elems, f.freshVal(st, fmt.Sprintf("%s.%d", prefix, i), tp.At(i).Type()))
		}
		return v
	case KArrayVal, KBad:
		f.unsupportedf("value of type %s", t)
		v.K = KBad
		return v
	}
	v.T = f.freshConst(prefix, sortOf(k, w))
	f.assume(f.typeInv(st, v, t))
	return v
}

// it returns the Int term of an Int-kinded value.
func (f *FuncVC) it(v Val) string {
	if v.T != "" {
		return v.T
	}
	if v.BVOrig != "" {
		return fmt.Sprintf("(s2i%d %s)", v.BVW, v.BVOrig)
	}
	return "0"
}

// ---------------------------------------------------------------------------
// locations

func (f *FuncVC) load(st *State, l *Loc) Val {
	switch l.K {
	case LCell:
		if v, ok := st.cells[l.Alloc]; ok {
			return v
		}
		return f.zero(l.Typ)
	case LField:
		k, w := kindOfType(l.Typ)
		arr := f.heapGet(st, l.Key, fieldArraySort(k, w))
		v := Val{K: k, W: w, Typ: l.Typ, T: "(select " + arr + " " + l.Ref + ")"}
		return f.namedLoad(st, v, l.Typ, l.Key, l.Ref)
	case LHeapCell:
		k, w := kindOfType(l.Typ)
		key := "C." + sortKey(k, w)
		arr := f.heapGet(st, key, fieldArraySort(k, w))
		v := Val{K: k, W: w, Typ: l.Typ, T: "(select " + arr + " " + l.Ref + ")"}
		return f.namedLoad(st, v, l.Typ, key, l.Ref)
	case LElem:
		k, w := kindOfType(l.Typ)
		key := "E." + sortKey(k, w)
		arr := f.heapGet(st, key, elemArraySort(k, w))
		v := Val{K: k, W: w, Typ: l.Typ, T: "(select (select " + arr + " " + l.Ref + ") " + l.Idx + ")"}
		return f.namedLoad(st, v, l.Typ, key, l.Ref)
	case LObj:
		s := l.Typ.Underlying().(*types.Struct)
		v := Val{K: KStruct, Typ: l.Typ}
		for i := 0; i < s.NumFields(); i++ {
			fl := f.fieldLoc(l, i)
			v.Elems = append(v.Elems, f.load(st, fl))
		}
		return v
	case LTable:
		return Val{K: KBV, W: 64, Typ: l.Typ, T: "(" + l.Table + " " + l.Idx + ")"}
	case LGlobal:
		k, w := kindOfType(l.Typ)
		if k == KStruct {
			// globals of (empty) struct type such as binary.LittleEndian
			return f.zero(l.Typ)
		}
		n := f.heapGet(st, l.Key, sortOf(k, w))
		v := Val{K: k, W: w, Typ: l.Typ, T: n}
		if k == KIface && strings.Contains(l.Key, ".Err") && n == l.Key+"@0" && !f.declared["errinit."+l.Key] {
			// error sentinels: initialised once by errors.New, never reassigned (scan of stores: none outside init)
			f.declared["errinit."+l.Key] = true
			h := fnv.New32a()
			h.Write([]byte(l.Key))
			f.decls = append(f.decls, fmt.Sprintf("(assert (and (not (= (i.tag %s) 0)) (= (i.pay %s) %d)))", n, n, h.Sum32()))
			f.assumptions["package-level Err* sentinels are non-nil, pairwise distinct and never reassigned after init"] = true
		}
		return v
	case LArrObj:
		f.unsupportedf("load of whole array value")
		return Val{K: KBad}
	}
	return Val{K: KBad}
}

func (f *FuncVC) namedLoad(st *State, v Val, t types.Type, hint string, ref string) Val {
	switch v.K {
	case KInt, KSlice, KRef:
		if f.noDefine {
			return v
		}
		if ce, ok := f.loadCache[v.T]; ok {
			v.T = ce.name
			return v
		}
		raw := v.T
		v.T = f.define("ld."+hint, sortOf(v.K, v.W), v.T)
		f.assume(f.typeInv(st, v, t))
		if cur, ok := st.heap[hint]; ok && cur == hint+"@0" && ref != "" && (v.K == KSlice || v.K == KRef) && f.entryState != nil && f.entryState.heap["alloc"] != "" {
			// read from a heap component that is still at its entry version, out of an object that existed at entry:
			// the value is the one the object held at entry, so it references an object allocated at entry (stronger
			// than "allocated now"). Objects allocated later are constrained on the same heap version (allocation-time
			// facts), hence the guard on the container.
			al0 := f.entryState.heap["alloc"]
			ist := &State{heap: map[string]string{"alloc": al0}}
			guard := "(or (and (> " + ref + " 0) (select " + al0 + " " + ref + ")) (and (< " + ref + " 0) (> (eltref.arr " + ref + ") 0) (select " + al0 + " (eltref.arr " + ref + "))))"
			f.assume(implies(guard, f.typeInv(ist, v, t)))
		}
		if v.T != raw {
			f.loadCache[raw] = cacheEnt{v.T, len(f.cmds)}
		}
	case KBad, KStruct, KArrayVal:
		f.unsupportedf("load of type %s", t)
	}
	return v
}

func (f *FuncVC) store(st *State, l *Loc, v Val) {
	switch l.K {
	case LCell:
		st.cells[l.Alloc] = v
	case LField:
		k, w := kindOfType(l.Typ)
		arr := f.heapGet(st, l.Key, fieldArraySort(k, w))
		f.heapSet(st, l.Key, fieldArraySort(k, w), "(store "+arr+" "+l.Ref+" "+f.termAs(v, k, w)+")")
	case LHeapCell:
		k, w := kindOfType(l.Typ)
		key := "C." + sortKey(k, w)
		arr := f.heapGet(st, key, fieldArraySort(k, w))
		f.heapSet(st, key, fieldArraySort(k, w), "(store "+arr+" "+l.Ref+" "+f.termAs(v, k, w)+")")
	case LElem:
		k, w := kindOfType(l.Typ)
		key := "E." + sortKey(k, w)
		arr := f.heapGet(st, key, elemArraySort(k, w))
		f.heapSet(st, key, elemArraySort(k, w), "(store "+arr+" "+l.Ref+" (store (select "+arr+" "+l.Ref+") "+l.Idx+" "+f.termAs(v, k, w)+"))")
	case LObj:
		s := l.Typ.Underlying().(*types.Struct)
		if len(v.Elems) != s.NumFields() {
			f.unsupportedf("struct store shape mismatch for %s", l.Typ)
			return
		}
		for i := 0; i < s.NumFields(); i++ {
			f.store(st, f.fieldLoc(l, i), v.Elems[i])
		}
	case LGlobal:
		k, w := kindOfType(l.Typ)
		if k == KStruct {
			return
		}
		f.heapSet(st, l.Key, sortOf(k, w), f.termAs(v, k, w))
	default:
		f.unsupportedf("store to location kind %d", l.K)
	}
}

// termAs renders a value as a term of the given kind (handles lazily built Int terms).
func (f *FuncVC) termAs(v Val, k Kind, w int) string {
	if v.K == KInt {
		return f.it(v)
	}
	if v.K == KBad || v.T == "" {
		f.unsupportedf("use of unsupported value")
		switch k {
		case KBool:
			return "false"
		case KBV:
			return bvLit(bigZero, w)
		case KStr:
			return f.strConst("")
		case KSlice:
			return "nilslice"
		case KIface:
			return "niliface"
		}
		return "0"
	}
	return v.T
}

// fieldLoc is the location of field i of the struct object at l (LObj).
func (f *FuncVC) fieldLoc(l *Loc, i int) *Loc {
	s := l.Typ.Underlying().(*types.Struct)
	ft := s.Field(i).Type()
	k, _ := kindOfType(ft)
	switch k {
	case KStruct:
		ref := l.Ref
		if i != 0 {
			fn := "sub." + sanitize(structKey(l.Typ)) + "." + s.Field(i).Name()
			f.declareFun(fn, "(Int) Int")
			ref = "(" + fn + " " + l.Ref + ")"
		}
		return &Loc{K: LObj, Ref: ref, Typ: ft}
	case KArrayVal:
		fn := "sub." + sanitize(structKey(l.Typ)) + "." + s.Field(i).Name()
		f.declareFun(fn, "(Int) Int")
		return &Loc{K: LArrObj, Ref: "(" + fn + " " + l.Ref + ")", Typ: ft, N: ft.Underlying().(*types.Array).Len()}
	}
	return &Loc{K: LField, Ref: l.Ref, Key: fieldKey(l.Typ, i), Typ: ft}
}

// derefLoc is the location a pointer value of Go type *T points to.
func (f *FuncVC) derefLoc(ref string, pointee types.Type) *Loc {
	k, _ := kindOfType(pointee)
	switch k {
	case KStruct:
		return &Loc{K: LObj, Ref: ref, Typ: pointee}
	case KArrayVal:
		return &Loc{K: LArrObj, Ref: ref, Typ: pointee, N: pointee.Underlying().(*types.Array).Len()}
	}
	return &Loc{K: LHeapCell, Ref: ref, Typ: pointee}
}

// locAsVal turns a location into a first-class pointer value.
func (f *FuncVC) locAsVal(l *Loc, t types.Type) Val {
	switch l.K {
	case LObj, LHeapCell, LArrObj:
		return Val{K: KRef, T: l.Ref, Typ: t}
	case LGlobal:
		n := "gaddr." + sanitize(l.Key)
		f.declare(n, "Int")
		return Val{K: KRef, T: n, Typ: t}
	}
	f.unsupportedf("address of location kind %d used as a value", l.K)
	return Val{K: KRef, T: "0", Typ: t}
}

// newRef allocates a fresh object reference.
func (f *FuncVC) newRef(st *State, hint string) string {
	r := f.freshConst("new."+hint, "Int")
	al := f.heapGet(st, "alloc", "(Array Int Bool)")
	f.assume("(and (> " + r + " 0) (not (select " + al + " " + r + ")))")
	f.heapSet(st, "alloc", "(Array Int Bool)", "(store "+al+" "+r+" true)")
	return r
}

func (f *FuncVC) zeroInit(st *State, l *Loc) {
	switch l.K {
	case LObj:
		s := l.Typ.Underlying().(*types.Struct)
		for i := 0; i < s.NumFields(); i++ {
			f.zeroInit(st, f.fieldLoc(l, i))
		}
	case LArrObj:
		a := l.Typ.Underlying().(*types.Array)
		k, w := kindOfType(a.Elem())
		if k == KStruct || k == KArrayVal || k == KBad {
			return // element objects are addressed by eltref; zeroing is not modelled
		}
		key := "E." + sortKey(k, w)
		arr := f.heapGet(st, key, elemArraySort(k, w))
		z := f.zero(a.Elem())
		if strings.HasPrefix(l.Ref, "new.") {
			f.assume(f.allEqual("(select "+arr+" "+l.Ref+")", k, w, z.T))
		} else if k == KStr {
			za := f.freshConst("zarr", "(Array Int "+sortOf(k, w)+")")
			f.assume(f.allEqual(za, k, w, z.T))
			f.heapSet(st, key, elemArraySort(k, w), "(store "+arr+" "+l.Ref+" "+za+")")
		} else {
			f.heapSet(st, key, elemArraySort(k, w), "(store "+arr+" "+l.Ref+" ((as const (Array Int "+sortOf(k, w)+")) "+constLit(z.T)+"))")
		}
	default:
		f.store(st, l, f.zero(l.Typ))
	}
}

// ---------------------------------------------------------------------------
// merging

func (f *FuncVC) mergeVals(conds []string, vs []Val, hint string) Val {
	first := vs[0]
	same := true
	for _, v := range vs[1:] {
		if v.K != first.K || v.T != first.T || v.BVOrig != first.BVOrig || len(v.Elems) != len(first.Elems) {
			same = false
			break
		}
	}
	if same && len(first.Elems) == 0 {
		return first
	}
	if len(first.Elems) > 0 {
		out := Val{K: first.K, Typ: first.Typ}
		for i := range first.Elems {
			var sub []Val
			ok := true
			for _, v := range vs {
				if len(v.Elems) != len(first.Elems) {
					ok = false
					break
				}
				sub = append(sub, v.Elems[i])
			}
			if !ok {
				return Val{K: KBad}
			}
			out.Elems = append(out.Elems, f.mergeVals(conds, sub, hint))
		}
		return out
	}
	for _, v := range vs {
		if v.K != first.K || (v.K == KBV && v.W != first.W) {
			return Val{K: KBad}
		}
	}
	k, w := first.K, first.W
	t := f.termAs(vs[len(vs)-1], k, w)
	for i := len(vs) - 2; i >= 0; i-- {
		t = ite(conds[i], f.termAs(vs[i], k, w), t)
	}
	return Val{K: k, W: w, Typ: first.Typ, T: f.define("m."+hint, sortOf(k, w), t)}
}

func (f *FuncVC) mergeStates(conds []string, sts []*State, hint string) *State {
	if len(sts) == 1 {
		n := sts[0].clone()
		n.reach = f.define("reach."+hint, "Bool", conds[0])
		return n
	}
	out := &State{cells: map[*ssa.Alloc]Val{}, heap: map[string]string{}, epoch: sts[0].epoch}
	for _, s := range sts[1:] {
		if s.epoch != out.epoch {
			// some branch went through a total havoc: components nobody has looked at yet are unknown afterwards
			f.epochCtr++
			out.epoch = f.epochCtr
			break
		}
	}
	out.reach = f.define("reach."+hint, "Bool", or(conds...))
	// cells
	keys := map[*ssa.Alloc]bool{}
	for _, s := range sts {
		for a := range s.cells {
			keys[a] = true
		}
	}
	var allocs []*ssa.Alloc
	for a := range keys {
		allocs = append(allocs, a)
	}
	sort.Slice(allocs, func(i, j int) bool {
		return allocs[i].Pos() < allocs[j].Pos() || (allocs[i].Pos() == allocs[j].Pos() && allocs[i].Name() < allocs[j].Name())
	})
	for _, a := range allocs {
		var vs []Val
		var cs []string
		for i, s := range sts {
			if v, ok := s.cells[a]; ok {
				vs = append(vs, v)
				cs = append(cs, conds[i])
			}
		}
		if len(vs) == 0 {
			continue
		}
		out.cells[a] = f.mergeVals(cs, vs, a.Comment)
	}
	hk := map[string]bool{}
	for _, s := range sts {
		for k := range s.heap {
			hk[k] = true
		}
	}
	var hkeys []string
	for k := range hk {
		hkeys = append(hkeys, k)
	}
	sort.Strings(hkeys)
	for _, k := range hkeys {
		var ts []string
		for _, s := range sts {
			ts = append(ts, f.heapGet(s, k, f.hsort[k]))
		}
		same := true
		for _, t := range ts[1:] {
			if t != ts[0] {
				same = false
			}
		}
		if same {
			out.heap[k] = ts[0]
			continue
		}
		srt := f.hsort[k]
		t := ts[len(ts)-1]
		for i := len(ts) - 2; i >= 0; i-- {
			t = ite(conds[i], ts[i], t)
		}
		n := f.fresh(k)
		f.emit(fmt.Sprintf("(define-fun %s () %s %s)", n, srt, t))
		out.heap[k] = n
	}
	return out
}

var bigZero = new(big.Int)

func (g *Gen) preludeText(exactConv, exactPop bool) string {
	var b strings.Builder
	b.WriteString(g.Prelude)
	if exactPop {
		b.WriteString(g.PopExact)
	} else {
		b.WriteString(g.PopUF)
	}
	if exactConv {
		b.WriteString(g.ConvExact)
	} else {
		b.WriteString(g.ConvUF)
	}
	b.WriteString(g.PreludePost)
	return b.String()
}

func (g *Gen) loadPreludes(dir string) error {
	rd := func(name string) (string, error) {
		b, err := os.ReadFile(filepath.Join(dir, name))
		return string(b), err
	}
	var err error
	if g.Prelude, err = rd("prelude.smt2"); err != nil {
		return err
	}
	if g.PreludePost, err = rd("prelude_post.smt2"); err != nil {
		return err
	}
	if g.ConvUF, err = rd("conv_uf.smt2"); err != nil {
		return err
	}
	if g.ConvExact, err = rd("conv_exact.smt2"); err != nil {
		return err
	}
	if g.PopUF, err = rd("popcnt_uf.smt2"); err != nil {
		return err
	}
	if g.PopExact, err = rd("popcnt_exact.smt2"); err != nil {
		return err
	}
	return nil
}

// markIndex records that a term is used as an index: quantified facts are instantiated there.
func (f *FuncVC) markIndex(idx string) {
	if f.qdepth > 0 || f.noDefine && f.qdepth > 0 {
		return
	}
	if f.marked == nil {
		f.marked = map[string]bool{}
	}
	if strings.Contains(idx, "q.") && strings.Contains(idx, ".d") {
		return // mentions a bound variable
	}
	if f.marked[idx] {
		return
	}
	f.marked[idx] = true
	f.declareFun("inst!", "(Int) Bool")
	f.pendingMarks = append(f.pendingMarks, idx)
	if !f.noDefine {
		f.flushMarks()
	}
}

func (f *FuncVC) flushMarks() {
	for _, m := range f.pendingMarks {
		f.emit("(assert (inst! " + m + "))")
	}
	f.pendingMarks = nil
}

// constLit expands the prelude's nullary macros to constructor terms: cvc5 accepts only values in (as const ...).
func constLit(t string) string {
	switch t {
	case "nilslice":
		return "(mkslice 0 0 0 0)"
	case "niliface":
		return "(mkiface 0 0)"
	}
	return t
}

// allEqual states that every element of the array term a equals z. Constant arrays need a value literal (cvc5), which
// the uninterpreted string sort does not have: a quantified fact is used there.
func (f *FuncVC) allEqual(a string, k Kind, w int, z string) string {
	if k == KStr {
		// the array term may mention a merged heap (a define-fun whose body is an ite, which z3 refuses inside a
		// pattern): name it by a declared constant; e-matching works modulo the asserted equality
		c := f.freshConst("zarr", "(Array Int Str)")
		return "(and (= " + c + " " + a + ") (forall ((k Int)) (! (= (select " + c + " k) " + z + ") :pattern ((select " + c + " k)))))"
	}
	return "(= " + a + " ((as const (Array Int " + sortOf(k, w) + ")) " + constLit(z) + "))"
}

// reachProbe adds a vacuity probe: the program point must be reachable under everything assumed so far (preconditions,
// invariants, callee postconditions). `unsat` means the region is dead under the contracts: either genuinely dead code
// (listed in baseline/dead_code.json after review) or contradictory assumptions, i.e. vacuous proofs behind it.
func (f *FuncVC) reachProbe(kind string, st *State, pos token.Pos, what string) {
	if f.C == nil || st.reach == "true" || st.reach == "false" {
		return
	}
	if f.probed == nil {
		f.probed = map[string]bool{}
	}
	key := fmt.Sprintf("%s@%d", st.reach, len(f.cmds)/8)
	if f.probed[key] {
		return
	}
	f.probed[key] = true
	o := f.oblig(kind, &State{reach: "true"}, st.reach, pos, "vacuity probe: "+what+" (must be satisfiable)")
	o.goal = st.reach
	o.expectSat = true
}
