package main

import (
	"fmt"
	"go/ast"
	"go/constant"
	"go/token"
	"go/types"
	"math/big"
	"strconv"
	"strings"

	"golang.org/x/tools/go/packages"
	"golang.org/x/tools/go/ssa"
)

// Env evaluates contract expressions in a symbolic state.
type Env struct {
	f           *FuncVC
	fr          *frame // function-level environments only
	st          *State
	old         *State
	vars        map[string]Val
	vtypes      map[string]types.Type
	pkg         *packages.Package
	pos         token.Pos
	entryParams bool
	contract    *Contract
	depth       int
}

func (g *Gen) pkgByPath(path string) *packages.Package {
	if p, ok := g.P.Pkgs[path]; ok {
		return p
	}
	for _, p := range g.P.Pkgs {
		if p.Name == path {
			return p
		}
	}
	return nil
}

var tInt = types.Typ[types.Int]
var tBool = types.Typ[types.Bool]
var tUntypedInt = types.Typ[types.UntypedInt]

func (f *FuncVC) envFor(fr *frame, st *State, pos token.Pos) *Env {
	return &Env{f: f, fr: fr, st: st, old: f.entryState, vars: map[string]Val{}, vtypes: map[string]types.Type{}, pkg: f.G.P.pkgOf(fr.fn), pos: pos, contract: f.C}
}

func (e *Env) child() *Env {
	n := *e
	n.vars = map[string]Val{}
	n.vtypes = map[string]types.Type{}
	for k, v := range e.vars {
		n.vars[k] = v
	}
	for k, v := range e.vtypes {
		n.vtypes[k] = v
	}
	return &n
}

func (e *Env) bindResults(results []Val, sig *types.Signature, c *Contract) {
	for i, r := range results {
		t := sig.Results().At(i).Type()
		n := fmt.Sprintf("result%d", i)
		e.vars[n] = r
		e.vtypes[n] = t
		if len(results) == 1 {
			e.vars["result"] = r
			e.vtypes["result"] = t
		}
		if nm := sig.Results().At(i).Name(); nm != "" && nm != "_" {
			if _, clash := e.vars[nm]; !clash {
				e.vars[nm] = r
				e.vtypes[nm] = t
			}
		}
		if c != nil && i < len(c.Results) {
			e.vars[c.Results[i]] = r
			e.vtypes[c.Results[i]] = t
		}
	}
}

func (e *Env) boolExpr(x ast.Expr) (string, error) {
	v, _, err := e.expr(x)
	if err != nil {
		return "", err
	}
	if v.K != KBool {
		return "", fmt.Errorf("expression is not boolean")
	}
	return v.T, nil
}

func errf(format string, a ...interface{}) error { return fmt.Errorf(format, a...) }

// coerce makes the operands of a binary operation agree (untyped constants adapt to bit-vectors).
func (e *Env) coerce(a Val, ta types.Type, b Val, tb types.Type) (Val, Val, error) {
	if a.K == b.K && (a.K != KBV || a.W == b.W) {
		return a, b, nil
	}
	if a.K == KBV && b.K == KInt {
		if n, ok := parseIntLit(e.f.it(b)); ok && b.BVOrig == "" {
			return a, Val{K: KBV, W: a.W, T: bvLit(n, a.W), IntOrig: n.String(), Typ: ta}, nil
		}
	}
	if b.K == KBV && a.K == KInt {
		if n, ok := parseIntLit(e.f.it(a)); ok && a.BVOrig == "" {
			return Val{K: KBV, W: b.W, T: bvLit(n, b.W), IntOrig: n.String(), Typ: tb}, b, nil
		}
	}
	if (a.K == KRef && b.K == KInt) || (a.K == KInt && b.K == KRef) {
		return a, b, nil
	}
	nilOf := func(k Kind) (Val, bool) {
		switch k {
		case KIface:
			return Val{K: KIface, T: "niliface"}, true
		case KSlice:
			return Val{K: KSlice, T: "nilslice"}, true
		case KMap, KFunc:
			return Val{K: k, T: "0"}, true
		}
		return Val{}, false
	}
	if a.K == KRef && a.T == "0" {
		if z, ok := nilOf(b.K); ok {
			return z, b, nil
		}
	}
	if b.K == KRef && b.T == "0" {
		if z, ok := nilOf(a.K); ok {
			return a, z, nil
		}
	}
	return a, b, errf("operand kinds differ (%d/%d vs %d/%d)", a.K, a.W, b.K, b.W)
}

func (e *Env) expr(x ast.Expr) (Val, types.Type, error) {
	e.depth++
	defer func() { e.depth-- }()
	if e.depth > 200 {
		return Val{}, nil, errf("expression too deep")
	}
	f := e.f
	switch n := x.(type) {
	case *ast.ParenExpr:
		return e.expr(n.X)
	case *ast.BasicLit:
		switch n.Kind {
		case token.INT:
			bi, ok := new(big.Int).SetString(n.Value, 0)
			if !ok {
				return Val{}, nil, errf("bad integer literal %s", n.Value)
			}
			return Val{K: KInt, T: intLit(bi), Typ: tUntypedInt}, tUntypedInt, nil
		case token.STRING:
			s, err := strconv.Unquote(n.Value)
			if err != nil {
				return Val{}, nil, err
			}
			return Val{K: KStr, T: f.strConst(s), Typ: types.Typ[types.String]}, types.Typ[types.String], nil
		case token.CHAR:
			s, err := strconv.Unquote(n.Value)
			if err != nil || len(s) == 0 {
				return Val{}, nil, errf("bad char literal")
			}
			return Val{K: KInt, T: fmt.Sprint(int([]rune(s)[0])), Typ: tUntypedInt}, tUntypedInt, nil
		}
		return Val{}, nil, errf("unsupported literal %s", n.Value)
	case *ast.Ident:
		return e.ident(n.Name)
	case *ast.SelectorExpr:
		return e.selector(n)
	case *ast.StarExpr:
		v, t, err := e.expr(n.X)
		if err != nil {
			return Val{}, nil, err
		}
		pt, ok := t.Underlying().(*types.Pointer)
		if !ok {
			return Val{}, nil, errf("* of non-pointer")
		}
		l := f.derefLoc(f.termAs(v, KRef, 0), pt.Elem())
		return f.load(e.st, l), pt.Elem(), nil
	case *ast.IndexExpr:
		v, t, err := e.expr(n.X)
		if err != nil {
			return Val{}, nil, err
		}
		iv, _, err := e.expr(n.Index)
		if err != nil {
			return Val{}, nil, err
		}
		idx := f.indexTerm(iv)
		f.markIndex(idx)
		switch u := t.Underlying().(type) {
		case *types.Slice:
			l := f.sliceElemLoc(v, idx, u.Elem())
			hst := e.st
			if v.HeapSt != nil {
				hst = v.HeapSt
			}
			return f.load(hst, l), u.Elem(), nil
		case *types.Basic:
			if v.K == KStr {
				return Val{K: KBV, W: 8, T: "(sat " + v.T + " " + idx + ")", Typ: types.Typ[types.Uint8]}, types.Typ[types.Uint8], nil
			}
		}
		return Val{}, nil, errf("cannot index %s", t)
	case *ast.SliceExpr:
		v, t, err := e.expr(n.X)
		if err != nil {
			return Val{}, nil, err
		}
		lo, hi := "0", ""
		if n.Low != nil {
			lv, _, err := e.expr(n.Low)
			if err != nil {
				return Val{}, nil, err
			}
			lo = f.indexTerm(lv)
		}
		if n.High != nil {
			hv, _, err := e.expr(n.High)
			if err != nil {
				return Val{}, nil, err
			}
			hi = f.indexTerm(hv)
		}
		switch v.K {
		case KStr:
			if hi == "" {
				hi = "(slen " + v.T + ")"
			}
			return Val{K: KStr, T: "(ssub " + v.T + " " + lo + " " + hi + ")", Typ: t}, t, nil
		case KSlice:
			if hi == "" {
				hi = "(s.len " + v.T + ")"
			}
			return Val{K: KSlice, T: "(mkslice (s.arr " + v.T + ") (+ (s.off " + v.T + ") " + lo + ") (- " + hi + " " + lo + ") (- (s.cap " + v.T + ") " + lo + "))", Typ: t}, t, nil
		}
		return Val{}, nil, errf("cannot slice %s", t)
	case *ast.UnaryExpr:
		if n.Op == token.AND {
			// &x.f for a struct-valued (embedded) field: pointer to the embedded object
			sel, ok := n.X.(*ast.SelectorExpr)
			if !ok {
				return Val{}, nil, errf("& is only supported on embedded struct fields")
			}
			bv, bt, err := e.expr(sel.X)
			if err != nil {
				return Val{}, nil, err
			}
			pt, ok := bt.Underlying().(*types.Pointer)
			if !ok {
				return Val{}, nil, errf("&x.f: x must be a pointer")
			}
			obj, path := lookupFieldAnyPkg(pt.Elem(), sel.Sel.Name)
			if obj == nil {
				return Val{}, nil, errf("no field %s", sel.Sel.Name)
			}
			l := f.derefLoc(f.termAs(bv, KRef, 0), pt.Elem())
			for _, idx := range path {
				if l.K != LObj {
					return Val{}, nil, errf("&x.f: bad path")
				}
				l = f.fieldLoc(l, idx)
			}
			if l.K != LObj {
				return Val{}, nil, errf("&x.f: f must be a struct-valued field")
			}
			rt := types.NewPointer(l.Typ)
			return Val{K: KRef, T: l.Ref, Typ: rt}, rt, nil
		}
		v, t, err := e.expr(n.X)
		if err != nil {
			return Val{}, nil, err
		}
		switch n.Op {
		case token.NOT:
			if v.K != KBool {
				return Val{}, nil, errf("! of non-bool")
			}
			return Val{K: KBool, T: not(v.T), Typ: tBool}, tBool, nil
		case token.SUB:
			if v.K == KInt {
				if bi, ok := parseIntLit(f.it(v)); ok {
					return Val{K: KInt, T: intLit(new(big.Int).Neg(bi)), Typ: t}, t, nil
				}
				return Val{K: KInt, T: "(- " + f.it(v) + ")", Typ: t}, t, nil
			}
			if v.K == KBV {
				return Val{K: KBV, W: v.W, T: "(bvneg " + v.T + ")", Typ: t}, t, nil
			}
		case token.XOR:
			if v.K == KBV {
				return Val{K: KBV, W: v.W, T: "(bvnot " + v.T + ")", Typ: t}, t, nil
			}
			if v.K == KInt {
				return Val{K: KInt, T: "(- (- " + f.it(v) + ") 1)", Typ: t}, t, nil
			}
		case token.ADD:
			return v, t, nil
		}
		return Val{}, nil, errf("unsupported unary %s", n.Op)
	case *ast.BinaryExpr:
		return e.binary(n)
	case *ast.CallExpr:
		return e.call(n)
	case *ast.TypeAssertExpr:
		v, _, err := e.expr(n.X)
		if err != nil {
			return Val{}, nil, err
		}
		if v.K != KIface {
			return Val{}, nil, errf("type assertion on non-interface")
		}
		t, err := e.typeExpr(n.Type)
		if err != nil {
			return Val{}, nil, err
		}
		return f.unbox(v.T, t), t, nil
	}
	return Val{}, nil, errf("unsupported expression %T", x)
}

func (e *Env) ident(name string) (Val, types.Type, error) {
	f := e.f
	if v, ok := e.vars[name]; ok {
		return v, e.vtypes[name], nil
	}
	switch name {
	case "true":
		return Val{K: KBool, T: "true"}, tBool, nil
	case "false":
		return Val{K: KBool, T: "false"}, tBool, nil
	case "nil":
		return Val{K: KRef, T: "0", Typ: types.Typ[types.UntypedNil]}, types.Typ[types.UntypedNil], nil
	}
	if e.fr != nil {
		// free variables of a closure: pointers to the enclosing function's cells
		for _, fv := range e.fr.fn.FreeVars {
			if fv.Name() == name {
				if pv, ok := e.fr.vals[fv]; ok {
					if pt, ok := fv.Type().Underlying().(*types.Pointer); ok {
						l := f.derefLoc(f.termAs(pv, KRef, 0), pt.Elem())
						return f.load(e.st, l), pt.Elem(), nil
					}
				}
			}
		}
		// parameters at entry
		if pv, ok := e.fr.params[name]; ok && (e.entryParams || e.pos == token.NoPos) {
			return pv, pv.Typ, nil
		}
		obj := f.G.P.lookupVar(e.fr.fn, name, e.pos)
		if v, ok := obj.(*types.Var); ok && !v.IsField() {
			if a := e.fr.allocOf[v.Pos()]; a != nil {
				if l, ok := e.fr.locs[a]; ok {
					if l.K == LCell {
						if cv, ok := e.st.cells[a]; ok {
							return cv, v.Type(), nil
						}
						if pv, ok := e.fr.params[name]; ok {
							return pv, v.Type(), nil
						}
						return Val{}, nil, errf("variable %s is not live here", name)
					}
					return f.load(e.st, l), v.Type(), nil
				}
				if pv, ok := e.fr.params[name]; ok {
					return pv, v.Type(), nil
				}
				return Val{}, nil, errf("variable %s is not live here", name)
			}
			if v.Pkg() != nil && v.Parent() == v.Pkg().Scope() {
				return e.global(v)
			}
			if pv, ok := e.fr.params[name]; ok {
				return pv, v.Type(), nil
			}
			return Val{}, nil, errf("no storage found for variable %s", name)
		}
		if c, ok := obj.(*types.Const); ok {
			return e.constObj(c)
		}
	}
	// package-level lookup
	if e.pkg != nil {
		obj := e.pkg.Types.Scope().Lookup(name)
		switch o := obj.(type) {
		case *types.Const:
			return e.constObj(o)
		case *types.Var:
			return e.global(o)
		}
	}
	return Val{}, nil, errf("unknown identifier %s", name)
}

func (e *Env) constObj(c *types.Const) (Val, types.Type, error) {
	t := c.Type()
	k, w := kindOfType(t)
	switch k {
	case KInt:
		bi, _ := constant.Val(constant.ToInt(c.Val())).(*big.Int)
		if bi == nil {
			i64, _ := constant.Int64Val(constant.ToInt(c.Val()))
			bi = big.NewInt(i64)
		}
		return Val{K: KInt, T: intLit(bi), Typ: t}, t, nil
	case KBV:
		u64, _ := constant.Uint64Val(constant.ToInt(c.Val()))
		bi := new(big.Int).SetUint64(u64)
		return Val{K: KBV, W: w, T: bvLit(bi, w), IntOrig: bi.String(), Typ: t}, t, nil
	case KStr:
		return Val{K: KStr, T: e.f.strConst(constant.StringVal(c.Val())), Typ: t}, t, nil
	case KBool:
		if constant.BoolVal(c.Val()) {
			return Val{K: KBool, T: "true"}, t, nil
		}
		return Val{K: KBool, T: "false"}, t, nil
	}
	return Val{}, nil, errf("unsupported constant %s", c.Name())
}

func (e *Env) global(v *types.Var) (Val, types.Type, error) {
	f := e.f
	sp := f.G.P.Prog.Package(v.Pkg())
	if sp == nil {
		return Val{}, nil, errf("no SSA package for %s", v.Pkg().Path())
	}
	g, ok := sp.Members[v.Name()].(*ssa.Global)
	if !ok {
		return Val{}, nil, errf("no global %s", v.Name())
	}
	l := f.globalLoc(g)
	if l.K == LTable {
		return Val{}, nil, errf("table %s must be indexed via mask()/bit()", v.Name())
	}
	return f.load(e.st, l), v.Type(), nil
}

func (e *Env) selector(n *ast.SelectorExpr) (Val, types.Type, error) {
	f := e.f
	// package-qualified?
	if id, ok := n.X.(*ast.Ident); ok {
		if _, bound := e.vars[id.Name]; !bound {
			if p := e.importedPkg(id.Name); p != nil {
				obj := p.Scope().Lookup(n.Sel.Name)
				switch o := obj.(type) {
				case *types.Const:
					return e.constObj(o)
				case *types.Var:
					return e.global(o)
				}
				return Val{}, nil, errf("unknown %s.%s", id.Name, n.Sel.Name)
			}
		}
	}
	v, t, err := e.expr(n.X)
	if err != nil {
		return Val{}, nil, err
	}
	obj, path, _ := types.LookupFieldOrMethod(t, true, nil, n.Sel.Name)
	if obj == nil && e.pkg != nil {
		obj, path, _ = types.LookupFieldOrMethod(t, true, e.pkg.Types, n.Sel.Name)
	}
	if obj == nil {
		// unexported field of another package: search manually
		obj, path = lookupFieldAnyPkg(t, n.Sel.Name)
	}
	fld, ok := obj.(*types.Var)
	if !ok || !fld.IsField() {
		return Val{}, nil, errf("no field %s in %s", n.Sel.Name, t)
	}
	cur := v
	ct := t
	for _, idx := range path {
		if pt, ok := ct.Underlying().(*types.Pointer); ok {
			l := f.derefLoc(f.termAs(cur, KRef, 0), pt.Elem())
			if l.K != LObj {
				return Val{}, nil, errf("field of non-struct pointer")
			}
			fl := f.fieldLoc(l, idx)
			st := pt.Elem().Underlying().(*types.Struct)
			ct = st.Field(idx).Type()
			if fl.K == LObj {
				// embedded struct: continue with a pseudo pointer
				cur = Val{K: KRef, T: fl.Ref}
				ct = types.NewPointer(ct)
				continue
			}
			cur = f.load(e.st, fl)
			continue
		}
		if st, ok := ct.Underlying().(*types.Struct); ok {
			if cur.K != KStruct || idx >= len(cur.Elems) {
				return Val{}, nil, errf("bad struct value")
			}
			cur = cur.Elems[idx]
			ct = st.Field(idx).Type()
			continue
		}
		return Val{}, nil, errf("selector on %s", ct)
	}
	// pseudo pointer to embedded struct as final result: load the struct value
	if pt, ok := ct.Underlying().(*types.Pointer); ok && cur.K == KRef && fld.Type() != ct {
		if _, isStruct := pt.Elem().Underlying().(*types.Struct); isStruct && types.Identical(pt.Elem(), fld.Type()) {
			l := f.derefLoc(cur.T, pt.Elem())
			return f.load(e.st, l), fld.Type(), nil
		}
	}
	return cur, ct, nil
}

func lookupFieldAnyPkg(t types.Type, name string) (types.Object, []int) {
	if pt, ok := t.Underlying().(*types.Pointer); ok {
		t = pt.Elem()
	}
	st, ok := t.Underlying().(*types.Struct)
	if !ok {
		return nil, nil
	}
	for i := 0; i < st.NumFields(); i++ {
		if st.Field(i).Name() == name {
			return st.Field(i), []int{i}
		}
	}
	for i := 0; i < st.NumFields(); i++ {
		if st.Field(i).Embedded() {
			if o, p := lookupFieldAnyPkg(st.Field(i).Type(), name); o != nil {
				return o, append([]int{i}, p...)
			}
		}
	}
	return nil, nil
}

func (e *Env) importedPkg(name string) *types.Package {
	if e.pkg == nil {
		return nil
	}
	for _, imp := range e.pkg.Types.Imports() {
		if imp.Name() == name {
			return imp
		}
	}
	// any loaded package with that name (contracts may mention packages the code does not import)
	for _, p := range e.f.G.P.Pkgs {
		if p.Name == name && p.Types != nil && (strings.HasPrefix(p.PkgPath, "github.com/openacid/") || !strings.Contains(p.PkgPath, "/")) {
			return p.Types
		}
	}
	return nil
}

func (e *Env) typeExpr(x ast.Expr) (types.Type, error) {
	switch n := x.(type) {
	case *ast.Ident:
		if o := types.Universe.Lookup(n.Name); o != nil {
			if tn, ok := o.(*types.TypeName); ok {
				return tn.Type(), nil
			}
		}
		if e.pkg != nil {
			if tn, ok := e.pkg.Types.Scope().Lookup(n.Name).(*types.TypeName); ok {
				return tn.Type(), nil
			}
		}
		return nil, errf("unknown type %s", n.Name)
	case *ast.SelectorExpr:
		if id, ok := n.X.(*ast.Ident); ok {
			if p := e.importedPkg(id.Name); p != nil {
				if tn, ok := p.Scope().Lookup(n.Sel.Name).(*types.TypeName); ok {
					return tn.Type(), nil
				}
			}
		}
		return nil, errf("unknown type %s", exprText(x))
	case *ast.StarExpr:
		t, err := e.typeExpr(n.X)
		if err != nil {
			return nil, err
		}
		return types.NewPointer(t), nil
	case *ast.ArrayType:
		t, err := e.typeExpr(n.Elt)
		if err != nil {
			return nil, err
		}
		if n.Len == nil {
			return types.NewSlice(t), nil
		}
	case *ast.InterfaceType:
		return types.NewInterfaceType(nil, nil), nil
	case *ast.ParenExpr:
		return e.typeExpr(n.X)
	}
	return nil, errf("unsupported type expression %s", exprText(x))
}

func (e *Env) binary(n *ast.BinaryExpr) (Val, types.Type, error) {
	f := e.f
	a, ta, err := e.expr(n.X)
	if err != nil {
		return Val{}, nil, err
	}
	b, tb, err := e.expr(n.Y)
	if err != nil {
		return Val{}, nil, err
	}
	switch n.Op {
	case token.LAND:
		if a.K != KBool || b.K != KBool {
			return Val{}, nil, errf("&& of non-bool")
		}
		return Val{K: KBool, T: and(a.T, b.T)}, tBool, nil
	case token.LOR:
		if a.K != KBool || b.K != KBool {
			return Val{}, nil, errf("|| of non-bool")
		}
		return Val{K: KBool, T: or(a.T, b.T)}, tBool, nil
	}
	if n.Op == token.SHL || n.Op == token.SHR {
		amt := f.indexTerm(b)
		if a.K == KBV {
			tab := fmt.Sprintf("shr%di", a.W)
			if n.Op == token.SHL {
				tab = fmt.Sprintf("shl%di", a.W)
			}
			return Val{K: KBV, W: a.W, T: "(" + tab + " " + a.T + " " + amt + ")", Typ: ta}, ta, nil
		}
		if k, ok := parseIntLit(amt); ok && a.K == KInt {
			if n.Op == token.SHL {
				return Val{K: KInt, T: "(* " + f.it(a) + " " + pow2(int(k.Int64())) + ")", Typ: ta}, ta, nil
			}
			return Val{K: KInt, T: "(div " + f.it(a) + " " + pow2(int(k.Int64())) + ")", Typ: ta}, ta, nil
		}
		return Val{}, nil, errf("unsupported shift in specification")
	}
	a, b, err = e.coerce(a, ta, b, tb)
	if err != nil {
		return Val{}, nil, fmt.Errorf("%s: %v", n.Op, err)
	}
	rt := ta
	if ta == tUntypedInt {
		rt = tb
	}
	switch n.Op {
	case token.EQL:
		return Val{K: KBool, T: f.equal(a, b)}, tBool, nil
	case token.NEQ:
		return Val{K: KBool, T: not(f.equal(a, b))}, tBool, nil
	case token.LSS, token.LEQ, token.GTR, token.GEQ:
		if a.K == KRef {
			a.K, b.K = KInt, KInt
		}
		return Val{K: KBool, T: f.compare(n.Op, a, b)}, tBool, nil
	}
	if a.K == KInt {
		x, y := f.it(a), f.it(b)
		switch n.Op {
		case token.ADD:
			return Val{K: KInt, T: "(+ " + x + " " + y + ")", Typ: rt}, rt, nil
		case token.SUB:
			return Val{K: KInt, T: "(- " + x + " " + y + ")", Typ: rt}, rt, nil
		case token.MUL:
			return Val{K: KInt, T: "(* " + x + " " + y + ")", Typ: rt}, rt, nil
		case token.QUO:
			// specification division is Euclidean (floor for positive divisors)
			return Val{K: KInt, T: "(div " + x + " " + y + ")", Typ: rt}, rt, nil
		case token.REM:
			return Val{K: KInt, T: "(mod " + x + " " + y + ")", Typ: rt}, rt, nil
		case token.AND:
			if bn, ok := parseIntLit(y); ok {
				if k, ok := isPow2Minus1(bn.String()); ok {
					return Val{K: KInt, T: "(mod " + x + " " + pow2(k) + ")", Typ: rt}, rt, nil
				}
			}
		case token.AND_NOT:
			if bn, ok := parseIntLit(y); ok {
				if k, ok := isPow2Minus1(bn.String()); ok {
					return Val{K: KInt, T: "(- " + x + " (mod " + x + " " + pow2(k) + "))", Typ: rt}, rt, nil
				}
			}
		}
		return Val{}, nil, errf("unsupported integer operator %s in specification", n.Op)
	}
	if a.K == KBV {
		ops := map[token.Token]string{token.ADD: "bvadd", token.SUB: "bvsub", token.MUL: "bvmul", token.AND: "bvand", token.OR: "bvor", token.XOR: "bvxor", token.QUO: "bvudiv", token.REM: "bvurem"}
		if n.Op == token.AND_NOT {
			return Val{K: KBV, W: a.W, T: "(bvand " + a.T + " (bvnot " + b.T + "))", Typ: rt}, rt, nil
		}
		if o, ok := ops[n.Op]; ok {
			return Val{K: KBV, W: a.W, T: "(" + o + " " + a.T + " " + b.T + ")", Typ: rt}, rt, nil
		}
	}
	return Val{}, nil, errf("unsupported operator %s on kind %d", n.Op, a.K)
}

// seqArgs renders a slice-typed value as (content array, offset) for spec functions over sequences.
func (e *Env) seqArgs(v Val, t types.Type) (string, string, string, error) {
	if v.K == KStr {
		return "", "", "", errf("string used where a slice is expected")
	}
	sl, ok := t.Underlying().(*types.Slice)
	if !ok || v.K != KSlice {
		return "", "", "", errf("slice expected, got %s", t)
	}
	k, w := kindOfType(sl.Elem())
	key := "E." + sortKey(k, w)
	hst := e.st
	if v.HeapSt != nil {
		hst = v.HeapSt
	}
	E := e.f.heapGet(hst, key, elemArraySort(k, w))
	return "(select " + E + " (s.arr " + v.T + "))", "(s.off " + v.T + ")", "(s.len " + v.T + ")", nil
}

var convWidths = map[string]int{"u8": 8, "u16": 16, "u32": 32, "u64": 64, "uint8": 8, "byte": 8, "uint16": 16, "uint32": 32, "uint64": 64, "uint": 64}
var sconvWidths = map[string]int{"s8": 8, "s16": 16, "s32": 32, "s64": 64}
var goIntTypes = map[string]*types.Basic{"int": types.Typ[types.Int], "int8": types.Typ[types.Int8], "int16": types.Typ[types.Int16], "int32": types.Typ[types.Int32], "int64": types.Typ[types.Int64]}
var bvTypes = map[int]*types.Basic{8: types.Typ[types.Uint8], 16: types.Typ[types.Uint16], 32: types.Typ[types.Uint32], 64: types.Typ[types.Uint64]}

func (e *Env) call(n *ast.CallExpr) (Val, types.Type, error) {
	f := e.f
	name := ""
	switch fn := n.Fun.(type) {
	case *ast.Ident:
		name = fn.Name
	case *ast.SelectorExpr:
		name = exprText(fn)
	default:
		return Val{}, nil, errf("unsupported call")
	}
	argv := func(i int) (Val, types.Type, error) {
		if i >= len(n.Args) {
			return Val{}, nil, errf("%s: missing argument %d", name, i)
		}
		return e.expr(n.Args[i])
	}
	intArg := func(i int) (string, error) {
		v, _, err := argv(i)
		if err != nil {
			return "", err
		}
		if v.K == KBV {
			return f.indexTerm(v), nil
		}
		if v.K != KInt && v.K != KRef {
			return "", errf("%s: integer argument expected", name)
		}
		return f.termAs(v, KInt, 0), nil
	}
	switch name {
	case "impl", "iff":
		a, err := e.boolExpr(n.Args[0])
		if err != nil {
			return Val{}, nil, err
		}
		b, err := e.boolExpr(n.Args[1])
		if err != nil {
			return Val{}, nil, err
		}
		if name == "impl" {
			return Val{K: KBool, T: implies(a, b)}, tBool, nil
		}
		return Val{K: KBool, T: eq(a, b)}, tBool, nil
	case "ite":
		c, err := e.boolExpr(n.Args[0])
		if err != nil {
			return Val{}, nil, err
		}
		a, ta, err := argv(1)
		if err != nil {
			return Val{}, nil, err
		}
		b, tb, err := argv(2)
		if err != nil {
			return Val{}, nil, err
		}
		a, b, err = e.coerce(a, ta, b, tb)
		if err != nil {
			return Val{}, nil, err
		}
		rt := ta
		if ta == tUntypedInt {
			rt = tb
		}
		return Val{K: a.K, W: a.W, T: ite(c, f.termAs(a, a.K, a.W), f.termAs(b, a.K, a.W)), Typ: rt}, rt, nil
	case "athead":
		// athead(k, e): e evaluated in the state at the head of loop k of this function (the arbitrary iteration the
		// body is verified for): lets a hint inside or after the loop body name the values the variables had at the cut point
		if e.fr == nil || len(n.Args) != 2 {
			return Val{}, nil, errf("athead(k, e) is only available inside a function with loops")
		}
		kv, _, err := e.expr(n.Args[0])
		if err != nil {
			return Val{}, nil, err
		}
		kk, ok := parseIntLit(f.it(kv))
		if !ok {
			return Val{}, nil, errf("athead: loop ordinal must be a literal")
		}
		for _, li := range e.fr.loops {
			if li.ord != int(kk.Int64()) {
				continue
			}
			sub := e.child()
			if li.headState != nil {
				sub.st = li.headState
				sub.pos = li.pos
			}
			// (no head state: discovery pass of the loop, whose results are rolled back — evaluate in the current state)
			// the hidden range index of that loop is nameable inside athead as in the loop's own clauses
			for _, in := range li.header.Instrs {
				if s, ok := in.(*ssa.Store); ok {
					if a, ok := s.Addr.(*ssa.Alloc); ok && a.Comment == "rangeindex" {
						if v, ok := sub.st.cells[a]; ok {
							sub.vars["rangeidx"] = v
							sub.vtypes["rangeidx"] = types.Typ[types.Int]
						}
					}
				}
			}
			rv, rt, err := sub.expr(n.Args[1])
			if err == nil && rv.K == KSlice && li.headState != nil {
				rv.HeapSt = li.headState
			}
			return rv, rt, err
		}
		return e.expr(n.Args[1])
	case "old":
		if e.old == nil {
			return Val{}, nil, errf("old() not available here")
		}
		sub := e.child()
		sub.st = e.old
		sub.entryParams = true
		return sub.expr(n.Args[0])
	case "forall", "exists":
		explicitAt := false
		if len(n.Args) == 5 {
			if id, ok := n.Args[4].(*ast.Ident); ok && id.Name == "at" {
				explicitAt = true
			} else {
				return Val{}, nil, errf("%s: fifth argument must be `at`", name)
			}
		} else if len(n.Args) != 4 {
			return Val{}, nil, errf("%s(i, lo, hi, P) expected", name)
		}
		id, ok := n.Args[0].(*ast.Ident)
		if !ok {
			return Val{}, nil, errf("%s: bound variable expected", name)
		}
		lo, err := intArg(1)
		if err != nil {
			return Val{}, nil, err
		}
		hi, err := intArg(2)
		if err != nil {
			return Val{}, nil, err
		}
		bv := fmt.Sprintf("q.%s.d%d", sanitize(id.Name), f.qdepth) // canonical: predicate instances are cached by text
		sub := e.child()
		sub.vars[id.Name] = Val{K: KInt, T: bv, Typ: tInt}
		sub.vtypes[id.Name] = tInt
		// loads inside the body must not be hoisted into named definitions that mention the bound variable
		save := f.noDefine
		f.noDefine = true
		f.qdepth++
		body, err := sub.boolExpr(n.Args[3])
		f.qdepth--
		f.noDefine = save
		if err != nil {
			return Val{}, nil, err
		}
		// Every quantifier is guarded and triggered by the uninterpreted marker inst!: hypotheses are instantiated
		// exactly at the marked terms (every index the code uses, every `use at(t)`, every skolem of a quantified goal).
		// Sound: a VC valid for every interpretation of inst! is in particular valid for inst! = true.
		f.declareFun("inst!", "(Int) Bool")
		rng := "(and (inst! " + bv + ") (<= " + lo + " " + bv + ") (< " + bv + " " + hi + "))"
		_ = explicitAt
		if name == "forall" {
			return Val{K: KBool, T: "(forall ((" + bv + " Int)) (! (=> " + rng + " " + body + ") :pattern ((inst! " + bv + "))))"}, tBool, nil
		}
		return Val{K: KBool, T: "(exists ((" + bv + " Int)) (and " + rng + " " + body + "))"}, tBool, nil
	case "len", "cap":
		v, _, err := argv(0)
		if err != nil {
			return Val{}, nil, err
		}
		switch v.K {
		case KSlice:
			if name == "cap" {
				return Val{K: KInt, T: "(s.cap " + v.T + ")", Typ: tInt}, tInt, nil
			}
			return Val{K: KInt, T: "(s.len " + v.T + ")", Typ: tInt}, tInt, nil
		case KStr:
			return Val{K: KInt, T: "(slen " + v.T + ")", Typ: tInt}, tInt, nil
		}
		return Val{}, nil, errf("len of unsupported value")
	case "istype":
		v, _, err := argv(0)
		if err != nil {
			return Val{}, nil, err
		}
		t, err := e.typeExpr(n.Args[1])
		if err != nil {
			return Val{}, nil, err
		}
		if v.K != KIface {
			return Val{}, nil, errf("istype on non-interface")
		}
		return Val{K: KBool, T: fmt.Sprintf("(= (i.tag %s) %d)", v.T, f.G.tagOf(t))}, tBool, nil
	case "fresh":
		v, _, err := argv(0)
		if err != nil {
			return Val{}, nil, err
		}
		ref := v.T
		if v.K == KSlice {
			ref = "(s.arr " + v.T + ")"
		}
		old := e.old
		if old == nil {
			old = e.st
		}
		al := f.heapGet(old, "alloc", "(Array Int Bool)")
		return Val{K: KBool, T: "(and (> " + ref + " 0) (not (select " + al + " " + ref + ")))"}, tBool, nil
	case "samearr":
		a, _, err := argv(0)
		if err != nil {
			return Val{}, nil, err
		}
		b, _, err := argv(1)
		if err != nil {
			return Val{}, nil, err
		}
		if a.K != KSlice || b.K != KSlice {
			return Val{}, nil, errf("samearr on non-slices")
		}
		return Val{K: KBool, T: fmt.Sprintf("(= (s.arr %s) (s.arr %s))", a.T, b.T)}, tBool, nil
	case "sameslice":
		a, _, err := argv(0)
		if err != nil {
			return Val{}, nil, err
		}
		b, _, err := argv(1)
		if err != nil {
			return Val{}, nil, err
		}
		if a.K != KSlice || b.K != KSlice {
			return Val{}, nil, errf("sameslice on non-slices")
		}
		return Val{K: KBool, T: fmt.Sprintf("(and (= (s.arr %[1]s) (s.arr %[2]s)) (= (s.off %[1]s) (s.off %[2]s)) (= (s.len %[1]s) (s.len %[2]s)))", a.T, b.T)}, tBool, nil
	case "int", "int8", "int16", "int32", "int64":
		v, _, err := argv(0)
		if err != nil {
			return Val{}, nil, err
		}
		t := goIntTypes[name]
		switch v.K {
		case KInt:
			return Val{K: KInt, T: f.it(v), Typ: t}, t, nil
		case KBV:
			return Val{K: KInt, T: f.indexTerm(v), Typ: t}, t, nil
		case KBool:
			return Val{K: KInt, T: "(ite " + v.T + " 1 0)", Typ: t}, t, nil
		}
		return Val{}, nil, errf("%s(): unsupported operand", name)
	case "popcnt64", "popcnt32", "popcnt16", "popcnt8":
		v, _, err := argv(0)
		if err != nil {
			return Val{}, nil, err
		}
		w, _ := strconv.Atoi(name[6:])
		if v.K != KBV || v.W != w {
			return Val{}, nil, errf("%s: %d-bit word expected", name, w)
		}
		return Val{K: KInt, T: "(" + name + " " + v.T + ")", Typ: tInt}, tInt, nil
	case "bitof":
		v, _, err := argv(0)
		if err != nil {
			return Val{}, nil, err
		}
		j, err := intArg(1)
		if err != nil {
			return Val{}, nil, err
		}
		if v.K != KBV {
			return Val{}, nil, errf("bitof: word expected")
		}
		return Val{K: KInt, T: fmt.Sprintf("(ite (= ((_ extract 0 0) (shr%di %s %s)) #b1) 1 0)", v.W, v.T, j), Typ: tInt}, tInt, nil
	case "pow2":
		j, err := intArg(0)
		if err != nil {
			return Val{}, nil, err
		}
		t := "0"
		for k := 62; k >= 0; k-- {
			t = "(ite (= " + j + " " + fmt.Sprint(k) + ") " + pow2(k) + " " + t + ")"
		}
		return Val{K: KInt, T: t, Typ: tInt}, tInt, nil
	case "mask", "bit", "maskupto", "rmask", "rmaskupto":
		j, err := intArg(0)
		if err != nil {
			return Val{}, nil, err
		}
		t := types.Typ[types.Uint64]
		return Val{K: KBV, W: 64, T: "(" + name + "64 " + j + ")", Typ: t}, t, nil
	case "bitat", "rank1", "rank1w":
		v, t, err := argv(0)
		if err != nil {
			return Val{}, nil, err
		}
		a, o, _, err := e.seqArgs(v, t)
		if err != nil {
			return Val{}, nil, err
		}
		i, err := intArg(1)
		if err != nil {
			return Val{}, nil, err
		}
		if (name == "bitat" || name == "rank1") && f.qdepth > 0 && !f.exactAll {
			// under a quantifier: the same uninterpreted application; its definition is supplied where the
			// quantifier is instantiated by the axiom declared with the function (pattern: the application itself)
			uf := name + "!"
			if !f.declared[uf] {
				f.declareFun(uf, "((Array Int (_ BitVec 64)) Int Int) Int")
				f.decls = append(f.decls, "(assert (forall ((a (Array Int (_ BitVec 64))) (o Int) (i Int)) (! (= ("+uf+" a o i) ("+name+" a o i)) :pattern (("+uf+" a o i)))))")
			}
			return Val{K: KInt, T: "(" + uf + " " + a + " " + o + " " + i + ")", Typ: tInt}, tInt, nil
		}
		if (name == "bitat" || name == "rank1") && f.qdepth == 0 && !f.exactAll {
			// ground occurrence: an uninterpreted application (so that congruence a = b ==> bitat(ws,a) = bitat(ws,b)
			// is immediate) tied to the definition by one ground equation
			uf := name + "!"
			if !f.declared[uf] {
				f.declareFun(uf, "((Array Int (_ BitVec 64)) Int Int) Int")
				f.decls = append(f.decls, "(assert (forall ((a (Array Int (_ BitVec 64))) (o Int) (i Int)) (! (= ("+uf+" a o i) ("+name+" a o i)) :pattern (("+uf+" a o i)))))")
			}
			app := "(" + uf + " " + a + " " + o + " " + i + ")"
			key := f.canon(app)
			if !f.groundDefs[key] {
				f.groundDefs[key] = true
				f.pendingDefs = append(f.pendingDefs, "(assert (= "+app+" ("+name+" "+a+" "+o+" "+i+")))")
				if !f.noDefine {
					f.flushDefs()
				}
			}
			return Val{K: KInt, T: app, Typ: tInt}, tInt, nil
		}
		return Val{K: KInt, T: "(" + name + " " + a + " " + o + " " + i + ")", Typ: tInt}, tInt, nil
	case "ones":
		v, t, err := argv(0)
		if err != nil {
			return Val{}, nil, err
		}
		a, o, l, err := e.seqArgs(v, t)
		if err != nil {
			return Val{}, nil, err
		}
		return Val{K: KInt, T: "(rank1w " + a + " " + o + " " + l + ")", Typ: tInt}, tInt, nil
	case "le16", "le32", "le64", "be16":
		v, t, err := argv(0)
		if err != nil {
			return Val{}, nil, err
		}
		a, o, _, err := e.seqArgs(v, t)
		if err != nil {
			return Val{}, nil, err
		}
		i, err := intArg(1)
		if err != nil {
			return Val{}, nil, err
		}
		w, _ := strconv.Atoi(name[2:])
		return Val{K: KBV, W: w, T: "(" + name + " " + a + " (+ " + o + " " + i + "))", Typ: bvTypes[w]}, bvTypes[w], nil
	}
	if w, ok := convWidths[name]; ok {
		v, _, err := argv(0)
		if err != nil {
			return Val{}, nil, err
		}
		t := bvTypes[w]
		switch v.K {
		case KInt:
			r := Val{K: KBV, W: w, T: f.intToBV(v, w), Typ: t}
			if v.T != "" {
				if bn, ok := parseIntLit(v.T); ok {
					r.IntOrig = new(big.Int).Mod(bn, new(big.Int).Lsh(big.NewInt(1), uint(w))).String()
				}
			}
			return r, t, nil
		case KBV:
			switch {
			case v.W == w:
				return v, t, nil
			case v.W < w:
				return Val{K: KBV, W: w, T: fmt.Sprintf("((_ zero_extend %d) %s)", w-v.W, v.T), IntOrig: v.IntOrig, Typ: t}, t, nil
			default:
				return Val{K: KBV, W: w, T: fmt.Sprintf("((_ extract %d 0) %s)", w-1, v.T), Typ: t}, t, nil
			}
		}
		return Val{}, nil, errf("%s(): unsupported operand", name)
	}
	if w, ok := sconvWidths[name]; ok {
		v, _, err := argv(0)
		if err != nil {
			return Val{}, nil, err
		}
		if v.K != KBV || v.W != w {
			return Val{}, nil, errf("%s(): %d-bit word expected", name, w)
		}
		return Val{K: KInt, T: fmt.Sprintf("(s2i%d %s)", w, v.T), BVOrig: v.T, BVW: w, Typ: tInt}, tInt, nil
	}
	if pd, ok := f.G.CS.Preds[name]; ok {
		return e.predicate(pd, n)
	}
	if sd, ok := f.G.CS.Specs[name]; ok {
		return e.specCall(sd, n)
	}
	return Val{}, nil, errf("unknown function %s in specification", name)
}

func (e *Env) predicate(pd *PredDecl, n *ast.CallExpr) (Val, types.Type, error) {
	f := e.f
	if len(n.Args) != len(pd.Params) {
		return Val{}, nil, errf("predicate %s: wrong number of arguments", pd.Name)
	}
	sub := &Env{f: f, st: e.st, old: e.old, vars: map[string]Val{}, vtypes: map[string]types.Type{}, pkg: f.G.pkgByPath(pd.Pkg), depth: e.depth}
	if sub.pkg == nil {
		sub.pkg = e.pkg
	}
	for i, p := range pd.Params {
		v, t, err := e.expr(n.Args[i])
		if err != nil {
			return Val{}, nil, err
		}
		if pt, err := sub.typeExpr(p.TypeExpr); err == nil {
			if t == tUntypedInt || t == types.Typ[types.UntypedNil] {
				t = pt
			}
		}
		sub.vars[p.Name] = v
		sub.vtypes[p.Name] = t
	}
	if f.C != nil && f.C.Opts["stable"] != "" && f.entryState != nil {
		for _, nm := range strings.Split(f.C.Opts["stable"], ",") {
			if strings.TrimSpace(nm) == pd.Name {
				// stable predicate: it reads only memory that exists at entry and that this function never writes
				// (every write of the function is a frame obligation: fresh or within `modifies`, and the heap keys of
				// `modifies` are checked below not to be read by the predicate), so its value is the entry value.
				sub.st = f.entryState
				f.assumptions["stable predicate "+pd.Name+" in "+f.Key+": evaluated in the entry heap (the function writes only fresh memory and its `modifies` locations, which the predicate does not read)"] = true
				f.stablePreds[pd.Name] = true
			}
		}
	}
	if pd.Macro {
		v, t, err := sub.expr(pd.Body)
		if err != nil {
			return Val{}, nil, fmt.Errorf("in definition %s: %v", pd.Name, err)
		}
		return v, t, nil
	}
	save := f.noDefine
	f.noDefine = true
	body, err := sub.boolExpr(pd.Body)
	f.noDefine = save
	if err != nil {
		return Val{}, nil, fmt.Errorf("in predicate %s: %v", pd.Name, err)
	}
	if f.qdepth > 0 {
		// under a quantifier: the instance mentions bound variables and cannot be named
		return Val{K: KBool, T: body}, tBool, nil
	}
	if f.stablePreds[pd.Name] {
		for _, m := range f.modSet {
			if m.key != "" && m.key != "alloc" && strings.Contains(body, m.key+"@") {
				return Val{}, nil, fmt.Errorf("predicate %s is declared stable but reads %s, which the function may modify", pd.Name, m.key)
			}
		}
	}
	key := f.canon(body)
	if nm, ok := f.predCache[key]; ok {
		return Val{K: KBool, T: nm}, tBool, nil
	}
	nm := f.fresh("P." + strings.ReplaceAll(pd.Name, ":", "_"))
	if f.C != nil && f.C.Opaque[pd.Name] {
		// opaque here: the instance is identified by its canonical text but its content is not visible to the solver
		f.emit("(declare-const " + nm + " Bool)")
	} else {
		f.emit("(define-fun " + nm + " () Bool " + body + ")")
	}
	f.predCache[key] = nm
	f.predIdx[nm] = len(f.cmds)
	return Val{K: KBool, T: nm}, tBool, nil
}

func (e *Env) specCall(sd *SpecDecl, n *ast.CallExpr) (Val, types.Type, error) {
	f := e.f
	penv := &Env{f: f, st: e.st, pkg: f.G.pkgByPath(sd.Pkg), vars: map[string]Val{}, vtypes: map[string]types.Type{}}
	if penv.pkg == nil {
		penv.pkg = e.pkg
	}
	rt, err := penv.typeExpr(sd.ResExpr)
	if err != nil {
		return Val{}, nil, err
	}
	rk, rw := kindOfType(rt)
	var args []string
	var sorts []string
	for i, p := range sd.Params {
		if i >= len(n.Args) {
			return Val{}, nil, errf("spec %s: missing argument", sd.Name)
		}
		if bc, ok := n.Args[i].(*ast.CallExpr); ok && len(bc.Args) == 1 {
			if id, ok := bc.Fun.(*ast.Ident); ok && id.Name == "bytesof" {
				// bytesof(s): the bytes of string s as a by-content sequence argument (what []byte(s) holds)
				sv, _, err := e.expr(bc.Args[0])
				if err != nil {
					return Val{}, nil, err
				}
				if sv.K != KStr {
					return Val{}, nil, errf("bytesof: string expected")
				}
				args = append(args, "(str2arr "+sv.T+")", "0", "(slen "+sv.T+")")
				sorts = append(sorts, "(Array Int (_ BitVec 8))", "Int", "Int")
				continue
			}
		}
		v, _, err := e.expr(n.Args[i])
		if err != nil {
			return Val{}, nil, err
		}
		pt, err := penv.typeExpr(p.TypeExpr)
		if err != nil {
			return Val{}, nil, err
		}
		k, w := kindOfType(pt)
		if v.K == KInt && k == KBV {
			v = Val{K: KBV, W: w, T: f.intToBV(v, w)}
		}
		if sl, ok := pt.Underlying().(*types.Slice); ok && v.K == KSlice {
			// sequences are passed by content: (array, offset, length)
			ek, ew := kindOfType(sl.Elem())
			if ek != KStruct && ek != KBad && ek != KArrayVal {
				a, o, l, err := e.seqArgs(v, pt)
				if err != nil {
					return Val{}, nil, err
				}
				args = append(args, a, o, l)
				sorts = append(sorts, "(Array Int "+sortOf(ek, ew)+")", "Int", "Int")
				continue
			}
		}
		args = append(args, f.termAs(v, k, w))
		sorts = append(sorts, sortOf(k, w))
	}
	fn := "spec." + sd.Name
	f.declareFun(fn, "("+strings.Join(sorts, " ")+") "+sortOf(rk, rw))
	t := fn
	if len(args) > 0 {
		t = "(" + fn + " " + strings.Join(args, " ") + ")"
	}
	return Val{K: rk, W: rw, T: t, Typ: rt}, rt, nil
}

// useLemma instantiates a lemma (a predicate-like declaration "lemma name(params) requires R ensures E",
// stored as predicate name "lemma:name" with body impl(R,E)).
func (e *Env) useLemma(x ast.Expr) error {
	call, ok := x.(*ast.CallExpr)
	if !ok {
		return errf("use: lemma call expected")
	}
	id, ok := call.Fun.(*ast.Ident)
	if !ok {
		return errf("use: lemma name expected")
	}
	if id.Name == "at" {
		// instantiate the `at`-triggered quantified clauses at these terms
		e.f.declareFun("inst!", "(Int) Bool")
		for _, a := range call.Args {
			v, _, err := e.expr(a)
			if err != nil {
				return err
			}
			e.f.assume("(inst! " + e.f.indexTerm(v) + ")")
		}
		return nil
	}
	pd, ok := e.f.G.CS.Preds["lemma:"+id.Name]
	if !ok {
		return errf("unknown lemma %s", id.Name)
	}
	v, _, err := e.predicate(pd, call)
	if err != nil {
		return err
	}
	e.f.usedLemmas[id.Name] = true
	e.f.assumeUnder(e.st, v.T)
	return nil
}

// modLocs translates the argument list of a modifies clause.
func (e *Env) modLocs(x ast.Expr) ([]modLoc, error) {
	call, ok := x.(*ast.CallExpr)
	if !ok {
		return nil, errf("bad modifies clause")
	}
	var out []modLoc
	f := e.f
	for _, a := range call.Args {
		switch n := a.(type) {
		case *ast.CallExpr:
			fn, _ := n.Fun.(*ast.Ident)
			if fn != nil && fn.Name == "elems" {
				v, t, err := e.expr(n.Args[0])
				if err != nil {
					return nil, err
				}
				sl, ok := t.Underlying().(*types.Slice)
				if !ok {
					return nil, errf("elems() of non-slice")
				}
				k, w := kindOfType(sl.Elem())
				key := "E." + sortKey(k, w)
				f.heapGet(e.st, key, elemArraySort(k, w))
				out = append(out, modLoc{key: key, ref: "(s.arr " + v.T + ")"})
				continue
			}
			return nil, errf("unsupported modifies item")
		case *ast.StarExpr:
			v, t, err := e.expr(n.X)
			if err != nil {
				return nil, err
			}
			pt, ok := t.Underlying().(*types.Pointer)
			if !ok {
				return nil, errf("* of non-pointer in modifies")
			}
			out = append(out, e.objMods(f.termAs(v, KRef, 0), pt.Elem())...)
		case *ast.SelectorExpr:
			v, t, err := e.expr(n.X)
			if err != nil {
				return nil, err
			}
			pt, ok := t.Underlying().(*types.Pointer)
			if !ok {
				return nil, errf("modifies: selector base must be a pointer")
			}
			obj, path := lookupFieldAnyPkg(pt.Elem(), n.Sel.Name)
			if obj == nil {
				return nil, errf("modifies: no field %s", n.Sel.Name)
			}
			l := f.derefLoc(f.termAs(v, KRef, 0), pt.Elem())
			for _, idx := range path {
				if l.K != LObj {
					return nil, errf("modifies: bad path")
				}
				l = f.fieldLoc(l, idx)
			}
			switch l.K {
			case LField:
				k, w := kindOfType(l.Typ)
				f.heapGet(e.st, l.Key, fieldArraySort(k, w))
				out = append(out, modLoc{key: l.Key, ref: l.Ref})
			case LObj:
				out = append(out, e.objMods(l.Ref, l.Typ)...)
			default:
				return nil, errf("modifies: unsupported location")
			}
		case *ast.Ident:
			if n.Name == "alloc" {
				out = append(out, modLoc{key: "alloc"})
				continue
			}
			if n.Name == "maps" {
				// map contents are not modelled (lookups are unconstrained), so a map write cannot invalidate a fact;
				// `modifies maps` only licenses the write for the frame condition (and must be licensed by callers too)
				out = append(out, modLoc{key: "*maps", ref: "0"})
				continue
			}
			// a global variable
			if e.pkg != nil {
				if gv, ok := e.pkg.Types.Scope().Lookup(n.Name).(*types.Var); ok {
					k, w := kindOfType(gv.Type())
					key := "G." + gv.Pkg().Name() + "." + gv.Name()
					f.heapGet(e.st, key, sortOf(k, w))
					out = append(out, modLoc{key: key})
					continue
				}
			}
			return nil, errf("unsupported modifies item %s", n.Name)
		default:
			return nil, errf("unsupported modifies item")
		}
	}
	return out, nil
}

func (e *Env) objMods(ref string, t types.Type) []modLoc {
	f := e.f
	var out []modLoc
	k, w := kindOfType(t)
	if k != KStruct {
		key := "C." + sortKey(k, w)
		f.heapGet(e.st, key, fieldArraySort(k, w))
		return []modLoc{{key: key, ref: ref}}
	}
	l := &Loc{K: LObj, Ref: ref, Typ: t}
	s := t.Underlying().(*types.Struct)
	for i := 0; i < s.NumFields(); i++ {
		fl := f.fieldLoc(l, i)
		switch fl.K {
		case LField:
			fk, fw := kindOfType(fl.Typ)
			f.heapGet(e.st, fl.Key, fieldArraySort(fk, fw))
			out = append(out, modLoc{key: fl.Key, ref: fl.Ref})
		case LObj:
			out = append(out, e.objMods(fl.Ref, fl.Typ)...)
		}
	}
	return out
}
