package main

import (
	"bytes"
	"context"
	"crypto/sha256"
	"encoding/hex"
	"fmt"
	"go/token"
	"go/types"
	"os"
	"os/exec"
	"path/filepath"
	"sort"
	"strings"
	"sync"
	"time"

	"golang.org/x/tools/go/ssa"
)

type FuncResult struct {
	Key         string         `json:"function"`
	Pos         string         `json:"pos"`
	Props       []string       `json:"properties"`
	Obligations []*Obligation  `json:"obligations"`
	Unsupported []string       `json:"outside_subset,omitempty"`
	Stale       []string       `json:"stale_contract_clauses,omitempty"`
	Assumptions []string       `json:"assumptions,omitempty"`
	Inlined     []string       `json:"inlined_callees,omitempty"`
	Contracts   []string       `json:"callee_contracts_used,omitempty"`
	Lemmas      []string       `json:"lemmas_used,omitempty"`
	NotClaimed  map[string]int `json:"obligation_kinds_not_claimed,omitempty"`
	Seconds     float64        `json:"seconds"`
	Error       string         `json:"error,omitempty"`
	AssumedOnly bool           `json:"assumed_only,omitempty"`
}

func (g *Gen) newFuncVC(fn *ssa.Function, key string, c *Contract) *FuncVC {
	return &FuncVC{G: g, Fn: fn, Key: key, C: c, declared: map[string]bool{}, counters: map[string]int{}, assumptions: map[string]bool{},
		strConsts: map[string]string{}, predCache: map[string]string{}, inlined: map[string]bool{}, callees: map[string]bool{},
		hsort: map[string]string{}, closures: map[ssa.Value]bool{}, knownLen1: map[string]bool{}, inlineStack: map[*ssa.Function]int{},
		usedContracts: map[string]bool{}, usedLemmas: map[string]bool{}, defs: map[string]string{}, loadCache: map[string]cacheEnt{}, predIdx: map[string]int{}, callOrd: map[string]int{}, firedGhosts: map[*GhostClause]bool{}, groundDefs: map[string]bool{}, skippedKinds: map[string]int{}, stablePreds: map[string]bool{}}
}

// generate builds all obligations of one function under contract.
func (g *Gen) generate(key string, c *Contract) (*FuncVC, error) {
	fn := g.P.Funcs[key]
	if fn == nil {
		return nil, fmt.Errorf("function %s not found (stale contract)", key)
	}
	if len(fn.Blocks) == 0 {
		return nil, fmt.Errorf("function %s has no body", key)
	}
	f := g.newFuncVC(fn, key, c)
	fr := f.newFrame(fn, 0)
	fr.top = true
	fr.contract = c
	fr.label = "f"
	st := &State{reach: "true", cells: map[*ssa.Alloc]Val{}, heap: map[string]string{}}
	f.heapGet(st, "alloc", "(Array Int Bool)")
	f.entryState = st
	for i, p := range fn.Params {
		name := p.Name()
		if name == "" || name == "_" {
			name = fmt.Sprintf("a%d", i)
		}
		v := f.freshVal(st, "p."+name, p.Type())
		v.Typ = p.Type()
		fr.vals[p] = v
		fr.params[name] = v
		if i == 0 && fn.Signature.Recv() != nil {
			if _, isPtr := p.Type().Underlying().(*types.Pointer); isPtr {
				f.assume("(not (= " + v.T + " 0))")
				f.assumptions["pointer receivers are non-nil (checked as an implicit precondition at every static call site)"] = true
			}
		}
	}
	for _, fv := range fn.FreeVars {
		// closure: free variables are pointers to the maker's cells
		v := f.freshVal(st, "fv."+fv.Name(), fv.Type())
		fr.vals[fv] = v
		f.assume("(not (= " + v.T + " 0))")
	}
	f.entryState = st.clone()
	if c != nil {
		for _, r := range c.Requires {
			if r.Expr == nil {
				continue
			}
			env := f.envFor(fr, st, token.NoPos)
			env.entryParams = true
			t, err := env.boolExpr(r.Expr)
			if err != nil {
				f.staleClause(r, err)
				continue
			}
			f.assume(t)
		}
		for _, u := range c.Uses {
			if u.Expr == nil {
				continue
			}
			env := f.envFor(fr, st, token.NoPos)
			env.entryParams = true
			if err := env.useLemma(u.Expr); err != nil {
				f.staleClause(u, err)
			}
		}
		for _, m := range c.Modifies {
			if m.Expr == nil {
				continue
			}
			env := f.envFor(fr, st, token.NoPos)
			env.entryParams = true
			locs, err := env.modLocs(m.Expr)
			if err != nil {
				f.staleClause(m, err)
				continue
			}
			f.modSet = append(f.modSet, locs...)
		}
	}
	if c != nil && c.Split != nil && c.Split.Expr != nil {
		env := f.envFor(fr, st, token.NoPos)
		env.entryParams = true
		v, _, err := env.expr(c.Split.Expr)
		if err != nil || (v.K != KInt && v.K != KBV) {
			f.staleClause(c.Split, fmt.Errorf("split: %v", err))
		} else {
			f.splitTerm = f.define("split", "Int", f.indexTerm(v))
			f.oblig("split.cover", st, fmt.Sprintf("(and (<= %d %s) (<= %s %d))", c.SplitLo, f.splitTerm, f.splitTerm, c.SplitHi), fn.Pos(), "case split covers every value allowed by the preconditions: "+c.Split.Text)
		}
	}
	// heap versions may have been declared lazily while translating; entry state = state after requires
	f.entryState = st.clone()
	f.execFrame(fr, st)
	if c != nil {
		for _, g := range c.Ghosts {
			if g.Line != "" && !f.firedGhosts[g] {
				f.staleClause(g.C, fmt.Errorf("no source line contains %q", g.Line))
			}
		}
	}
	// reachability probe: some return must be reachable, otherwise the preconditions are contradictory
	if len(fr.returns) > 0 {
		var rs []string
		for _, r := range fr.returns {
			rs = append(rs, r.st.reach)
		}
		o := f.oblig("reach", &State{reach: "true"}, or(rs...), fn.Pos(), "vacuity probe: a normal return is reachable under the preconditions (must be satisfiable)")
		o.goal = or(rs...)
		o.expectSat = true
	}
	return f, nil
}

func (f *FuncVC) checkPost(fr *frame, st *State, vals []Val, pos token.Pos) {
	if f.C == nil {
		return
	}
	for _, e := range f.C.Ensures {
		if e.Expr == nil {
			continue
		}
		env := f.envFor(fr, st, token.NoPos)
		env.entryParams = true
		env.bindResults(vals, fr.fn.Signature, f.C)
		t, err := env.boolExpr(e.Expr)
		if err != nil {
			f.staleClause(e, err)
			continue
		}
		f.oblig("post", st, t, pos, "postcondition: "+e.Text)
	}
}

// ---------------------------------------------------------------------------
// solving

type Solver struct {
	Name string
	Cmd  []string
}

var solvers = []Solver{
	{"z3-5.1.0", []string{"z3-new", "-smt2"}},
	{"z3-4.8.12", []string{"z3", "-smt2"}},
	{"cvc5-1.0.3", []string{"cvc5", "--lang=smt2"}},
}

func (f *FuncVC) header() string {
	var b strings.Builder
	b.WriteString("(set-logic ALL)\n")
	exactConv := f.C != nil && f.C.Opts["conv"] == "exact"
	b.WriteString(f.G.preludeText(exactConv || f.exactAll, f.exactAll))
	for _, d := range f.decls {
		b.WriteString(d)
		b.WriteByte('\n')
	}
	return b.String()
}

func (f *FuncVC) queryFor(o *Obligation, model bool) string {
	var b strings.Builder
	if model {
		b.WriteString("(set-option :produce-models true)\n")
	}
	b.WriteString(f.header())
	for _, c := range f.cmds[:o.at] {
		b.WriteString(c)
		b.WriteByte('\n')
	}
	b.WriteString("; obligation " + o.Name + " @ " + o.Pos + "\n; " + strings.ReplaceAll(o.Detail, "\n", " ") + "\n")
	if o.expectSat {
		b.WriteString("(assert " + o.goal + ")\n")
	} else {
		b.WriteString("(assert (not " + o.goal + "))\n")
	}
	b.WriteString("(check-sat)\n")
	if model {
		b.WriteString("(get-model)\n")
	}
	return b.String()
}

func runSolver(s Solver, file string, timeout time.Duration, extra ...string) (string, string, float64) {
	return runSolverCtx(context.Background(), s, file, timeout, extra...)
}

func runSolverCtx(parent context.Context, s Solver, file string, timeout time.Duration, extra ...string) (string, string, float64) {
	ctx, cancel := context.WithTimeout(parent, timeout+2*time.Second)
	defer cancel()
	args := append([]string{}, s.Cmd[1:]...)
	switch {
	case strings.HasPrefix(s.Name, "z3"):
		args = append(args, fmt.Sprintf("-T:%d", int(timeout.Seconds())))
	case strings.HasPrefix(s.Name, "cvc5"):
		args = append(args, fmt.Sprintf("--tlimit=%d", timeout.Milliseconds()))
	}
	args = append(args, extra...)
	args = append(args, file)
	cmd := exec.CommandContext(ctx, s.Cmd[0], args...)
	var out bytes.Buffer
	cmd.Stdout = &out
	cmd.Stderr = &out
	t0 := time.Now()
	_ = cmd.Run()
	el := time.Since(t0).Seconds()
	text := out.String()
	first := strings.TrimSpace(text)
	if i := strings.Index(first, "\n"); i >= 0 {
		first = first[:i]
	}
	switch first {
	case "sat", "unsat", "unknown":
	default:
		if parent.Err() != nil {
			first = "cancelled"
		} else if strings.Contains(first, "timeout") || ctx.Err() != nil {
			first = "timeout"
		} else if first == "" {
			first = "timeout"
		} else {
			first = "error: " + first
		}
	}
	return first, text, el
}

// batchSolve runs all obligations of a function in one incremental z3 session.
func (f *FuncVC) batchSolve(dir string, perQueryMs int) {
	var b strings.Builder
	b.WriteString(fmt.Sprintf("(set-option :timeout %d)\n", perQueryMs))
	b.WriteString(f.header())
	pos := 0
	var order []*Obligation
	obls := append([]*Obligation{}, f.obls...)
	sort.SliceStable(obls, func(i, j int) bool { return obls[i].at < obls[j].at })
	for _, o := range obls {
		for ; pos < o.at; pos++ {
			b.WriteString(f.cmds[pos])
			b.WriteByte('\n')
		}
		b.WriteString("(push)\n")
		if o.expectSat {
			b.WriteString("(set-option :timeout 400)\n")
			b.WriteString("(assert " + o.goal + ")\n")
		} else {
			b.WriteString("(assert (not " + o.goal + "))\n")
		}
		b.WriteString("(check-sat)\n(pop)\n")
		if o.expectSat {
			b.WriteString(fmt.Sprintf("(set-option :timeout %d)\n", perQueryMs))
		}
		order = append(order, o)
	}
	file := filepath.Join(dir, sanitize(f.Key)+".batch.smt2")
	os.WriteFile(file, []byte(b.String()), 0o644)
	total := time.Duration(perQueryMs*len(order))*time.Millisecond + 10*time.Second
	if total > 300*time.Second {
		total = 300 * time.Second
	}
	ctx, cancel := context.WithTimeout(context.Background(), total)
	defer cancel()
	cmd := exec.CommandContext(ctx, "z3-new", "-smt2", file)
	var out bytes.Buffer
	cmd.Stdout = &out
	cmd.Stderr = &out
	t0 := time.Now()
	_ = cmd.Run()
	el := time.Since(t0).Seconds()
	lines := strings.Split(strings.TrimSpace(out.String()), "\n")
	k := 0
	for _, ln := range lines {
		ln = strings.TrimSpace(ln)
		if ln != "sat" && ln != "unsat" && ln != "unknown" {
			if strings.HasPrefix(ln, "(error") {
				// an error line belongs to the query being processed; record and continue
				if k < len(order) {
					order[k].Output += ln + "\n"
				}
			}
			continue
		}
		if k >= len(order) {
			break
		}
		o := order[k]
		k++
		o.Seconds = el / float64(len(order))
		o.Backend = "z3-5.1.0"
		o.Output += ln
		switch {
		case !o.expectSat && ln == "unsat":
			o.Status = "discharged"
		case o.expectSat && (ln == "sat" || ln == "unknown"):
			o.Status = "discharged"
		case o.expectSat && ln == "unsat":
			o.Status = "vacuous"
		default:
			o.Status = "" // retry individually
		}
	}
}

var solverSem = make(chan struct{}, 14)

// solveFast tries z3 5.1.0 alone with a short timeout (one process per obligation: measured to be
// much more robust than one incremental session per function).
func (f *FuncVC) solveFast(o *Obligation, dir string, timeout time.Duration) {
	file := filepath.Join(dir, sanitize(o.Name)+".smt2")
	q := f.queryFor(o, false)
	o.hash = queryHash(q)
	if !o.expectSat {
		if ce, ok := proofCache.get(o.hash); ok {
			o.Status = "discharged"
			o.Backend = ce.solver + " (cached answer for the byte-identical query " + o.hash[:12] + ")"
			o.Seconds = 0
			o.Output = "unsat (cache; originally " + ce.seconds + "s)"
			o.Cached = true
			return
		}
	}
	os.WriteFile(file, []byte(q), 0o644)
	if timeout < time.Second {
		timeout = time.Second
	}
	t := timeout
	if o.expectSat {
		t = time.Second
	}
	if proofCache.hint[o.Name] == "split" && f.splitTerm != "" && !o.expectSat && o.Kind != "split.cover" {
		// scheduling hint: this obligation was discharged per case of the contract's `split` when the cache was built
		return
	}
	if hs := proofCache.hint[o.Name]; hs != "" && hs != solvers[0].Name && !o.expectSat {
		// scheduling hint: when the cache was built this obligation (by name) was decided by another solver; the query
		// text has changed (cache miss), try that solver first
		for _, s := range solvers {
			if s.Name == hs {
				a, _, sec := runSolver(s, file, 3*t)
				if a == "unsat" {
					o.Status, o.Backend, o.Seconds, o.Output = "discharged", s.Name, sec, s.Name+":unsat (scheduled first by hint)"
					os.Remove(file)
					return
				}
			}
		}
	}
	a, _, sec := runSolver(solvers[0], file, t)
	o.Seconds = sec
	o.Backend = solvers[0].Name
	o.Output = solvers[0].Name + ":" + a
	switch {
	case !o.expectSat && a == "unsat":
		o.Status = "discharged"
	case o.expectSat && a != "unsat":
		o.Status = "discharged"
	case o.expectSat && a == "unsat":
		o.Status = "vacuous"
	}
	if o.Status == "discharged" && os.Getenv("SLIMVC_KEEP") == "" {
		os.Remove(file)
	}
}

// solveSplit discharges an obligation once per value of the contract's `split` expression.
func (f *FuncVC) solveSplit(o *Obligation, dir string, timeout time.Duration) {
	base := f.queryFor(o, false)
	idx := strings.LastIndex(base, "(assert (not ")
	if idx < 0 {
		return
	}
	t0 := time.Now()
	var wg sync.WaitGroup
	n := f.C.SplitHi - f.C.SplitLo + 1
	oks := make([]bool, n)
	for c := f.C.SplitLo; c <= f.C.SplitHi; c++ {
		wg.Add(1)
		go func(c int) {
			defer wg.Done()
			q := base[:idx] + fmt.Sprintf("(assert (= %s %d))\n", f.splitTerm, c) + base[idx:]
			file := filepath.Join(dir, sanitize(o.Name)+fmt.Sprintf(".case%d.smt2", c))
			os.WriteFile(file, []byte(q), 0o644)
			a, _, _ := runSolver(solvers[0], file, timeout)
			if a != "unsat" {
				// second chance with the other solvers
				for _, s := range solvers[1:] {
					if a2, _, _ := runSolver(s, file, timeout); a2 == "unsat" {
						a = "unsat"
						break
					}
				}
			}
			if a == "unsat" {
				oks[c-f.C.SplitLo] = true
				os.Remove(file)
			}
		}(c)
	}
	wg.Wait()
	for _, ok := range oks {
		if !ok {
			return
		}
	}
	o.Status = "discharged"
	o.Backend = fmt.Sprintf("z3-5.1.0 (case split %s = %d..%d)", f.C.Split.Text, f.C.SplitLo, f.C.SplitHi)
	o.Seconds = time.Since(t0).Seconds()
	o.Output = "unsat in every case"
}

// solveOne runs the portfolio on a single obligation.
func (f *FuncVC) solveOne(o *Obligation, dir string, timeout time.Duration) {
	file := filepath.Join(dir, sanitize(o.Name)+".smt2")
	os.WriteFile(file, []byte(f.queryFor(o, false)), 0o644)
	o.SMTFile = file
	type res struct {
		ans, out string
		sec      float64
		s        Solver
	}
	ch := make(chan res, len(solvers))
	ctx, cancelAll := context.WithCancel(context.Background())
	defer cancelAll()
	for _, s := range solvers {
		go func(s Solver) {
			a, out, sec := runSolverCtx(ctx, s, file, timeout)
			ch <- res{a, out, sec, s}
		}(s)
	}
	var answers []string
	decided := false
	for range solvers {
		r := <-ch
		answers = append(answers, r.s.Name+":"+r.ans)
		if o.expectSat {
			if r.ans == "sat" {
				o.Status, o.Backend, o.Seconds, decided = "discharged", r.s.Name, r.sec, true
			} else if r.ans == "unsat" {
				o.Status, o.Backend, o.Seconds, decided = "vacuous", r.s.Name, r.sec, true
			}
		} else if r.ans == "unsat" {
			o.Status, o.Backend, o.Seconds, decided = "discharged", r.s.Name, r.sec, true
		} else if r.ans == "sat" {
			o.Status, o.Backend, o.Seconds, decided = "failed", r.s.Name, r.sec, true
		}
		if decided {
			cancelAll()
			break
		}
	}
	if !decided {
		allErr := len(answers) > 0
		for _, a := range answers {
			if !strings.Contains(a, ":error") {
				allErr = false
			}
		}
		if o.expectSat && allErr {
			o.Status = "undecided" // malformed query: nothing is known
			o.Backend = "portfolio"
		} else if o.expectSat {
			o.Status = "discharged" // not refuted: reachable as far as the solvers can tell
			o.Backend = "portfolio"
		} else {
			o.Status = "failed"
			o.Backend = "portfolio"
		}
	}
	o.Output = strings.Join(answers, " ")
	if o.Status == "failed" && strings.Contains(o.Output, ":sat") {
		// fetch a model from z3-new
		mfile := filepath.Join(dir, sanitize(o.Name)+".model.smt2")
		os.WriteFile(mfile, []byte(f.queryFor(o, true)), 0o644)
		a, out, _ := runSolver(solvers[0], mfile, timeout)
		if a == "sat" {
			o.Model = out
		}
	}
}

func (g *Gen) verifyFunction(key string, c *Contract, smtDir string, quickMs int, slow time.Duration) *FuncResult {
	t0 := time.Now()
	r := &FuncResult{Key: key, Props: c.Props}
	defer func() { r.Seconds = time.Since(t0).Seconds() }()
	var f *FuncVC
	func() {
		defer func() {
			if e := recover(); e != nil {
				r.Error = fmt.Sprintf("generator panic: %v", e)
			}
		}()
		var err error
		f, err = g.generate(key, c)
		if err != nil {
			r.Error = err.Error()
		}
	}()
	if f == nil {
		return r
	}
	r.Pos = g.P.posStr(f.Fn.Pos())
	r.Unsupported = f.unsupported
	r.Stale = f.stale
	for a := range f.assumptions {
		r.Assumptions = append(r.Assumptions, a)
	}
	sort.Strings(r.Assumptions)
	for k := range f.inlined {
		r.Inlined = append(r.Inlined, k)
	}
	sort.Strings(r.Inlined)
	for k := range f.usedContracts {
		r.Contracts = append(r.Contracts, k)
	}
	sort.Strings(r.Contracts)
	for k := range f.usedLemmas {
		r.Lemmas = append(r.Lemmas, k)
	}
	sort.Strings(r.Lemmas)
	if len(f.skippedKinds) > 0 {
		r.NotClaimed = f.skippedKinds
	}
	var wg sync.WaitGroup
	for _, o := range f.obls {
		wg.Add(1)
		go func(o *Obligation) {
			defer wg.Done()
			solverSem <- struct{}{}
			defer func() { <-solverSem }()
			f.solveFast(o, smtDir, time.Duration(quickMs)*time.Millisecond)
			if o.Status == "" && f.splitTerm != "" && !o.expectSat && o.Kind != "split.cover" {
				f.solveSplit(o, smtDir, time.Duration(quickMs)*time.Millisecond)
			}
			if o.Status == "" && isUnclaimed(o) {
				// listed as not claimed on the unchanged tree (tool limit): no long portfolio run
				o.Status = "failed"
				o.Backend = "fast pass only (not claimed)"
			}
			if o.Status == "" {
				f.solveOne(o, smtDir, slow)
			}
		}(o)
	}
	wg.Wait()
	// obligations of functions that left the subset or have stale clauses are undecided, not failed
	for _, o := range f.obls {
		if o.Status == "discharged" && !o.expectSat && !o.Cached && o.hash != "" {
			proofCache.put(o.hash, o.Backend, o.Seconds, o.Name)
		}
	}
	for _, o := range f.obls {
		if o.Status == "failed" && (len(f.unsupported) > 0 || len(f.stale) > 0) {
			o.Status = "undecided"
		}
		if o.Status == "failed" && o.SMTFile == "" {
			file := filepath.Join(smtDir, sanitize(o.Name)+".smt2")
			os.WriteFile(file, []byte(f.queryFor(o, false)), 0o644)
			o.SMTFile = file
		}
	}
	r.Obligations = f.obls
	return r
}

// ---------------------------------------------------------------------------
// proof cache: memoises `unsat` answers by the SHA-256 of the complete query text (prelude, declarations,
// path, negated goal). A query regenerated from changed code has different text and is solved afresh.

type cacheEntry struct{ solver, seconds string }

type cacheT struct {
	mu   sync.Mutex
	m    map[string]cacheEntry
	nw   []string
	hint map[string]string // obligation name -> solver that decided it when the cache was built (a scheduling hint only)
}

var proofCache = &cacheT{m: map[string]cacheEntry{}, hint: map[string]string{}}

func queryHash(q string) string {
	// obligation names/positions in comments are not part of the logical content
	var b strings.Builder
	for _, ln := range strings.Split(q, "\n") {
		if strings.HasPrefix(ln, ";") {
			continue
		}
		b.WriteString(ln)
		b.WriteByte('\n')
	}
	sum := sha256.Sum256([]byte(b.String()))
	return hex.EncodeToString(sum[:])
}

func (c *cacheT) load(path string) {
	data, err := os.ReadFile(path)
	if err != nil {
		return
	}
	for _, ln := range strings.Split(string(data), "\n") {
		f := strings.Fields(ln)
		if len(f) >= 3 {
			c.m[f[0]] = cacheEntry{f[1], f[2]}
		}
		if len(f) >= 5 {
			c.hint[f[3]] = f[4]
		} else if len(f) >= 4 {
			c.hint[f[3]] = f[1]
		}
	}
}

func (c *cacheT) get(h string) (cacheEntry, bool) {
	c.mu.Lock()
	defer c.mu.Unlock()
	e, ok := c.m[h]
	return e, ok
}

func (c *cacheT) put(h, solver string, sec float64, oname ...string) {
	c.mu.Lock()
	defer c.mu.Unlock()
	if _, ok := c.m[h]; ok {
		return
	}
	s := strings.Fields(solver)
	name := solver
	if len(s) > 0 {
		name = s[0]
	}
	hname := name
	if strings.Contains(solver, "case split") {
		hname = "split"
	}
	c.m[h] = cacheEntry{name, fmt.Sprintf("%.2f", sec)}
	line := fmt.Sprintf("%s %s %.2f", h, name, sec)
	if len(oname) > 0 && !strings.ContainsAny(oname[0], " \t") {
		line += " " + oname[0] + " " + hname
	}
	c.nw = append(c.nw, line)
}

func (c *cacheT) flush(path string) {
	c.mu.Lock()
	defer c.mu.Unlock()
	if path == "" || len(c.nw) == 0 {
		return
	}
	fh, err := os.OpenFile(path, os.O_APPEND|os.O_CREATE|os.O_WRONLY, 0o644)
	if err != nil {
		return
	}
	defer fh.Close()
	for _, l := range c.nw {
		fmt.Fprintln(fh, l)
	}
}
