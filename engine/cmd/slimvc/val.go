package main

import (
	"fmt"
	"go/types"
	"math/big"
	"strings"
)

type Kind int

const (
	KInt Kind = iota
	KBool
	KBV
	KStr
	KSlice
	KIface
	KRef
	KFunc
	KMap
	KStruct
	KTuple
	KArrayVal
	KBad
)

// Val is a symbolic Go value.
type Val struct {
	K     Kind
	T     string // SMT term (may be empty for KInt with BVOrig; use g.it)
	W     int    // BV width
	Elems []Val  // KStruct / KTuple / KArrayVal
	// KBV: Int term equal to the unsigned value, if cheaply known
	IntOrig string
	// KInt: bit-vector of width BVW whose signed value equals the Int
	BVOrig string
	BVW    int
	Typ    types.Type
	// KSlice produced by athead(k, e) in a specification: the element contents are read in this state's heap (the head of
	// loop k), not in the current one — lets a lemma relate an array before and after a store
	HeapSt *State
}

func pow2(n int) string {
	return new(big.Int).Lsh(big.NewInt(1), uint(n)).String()
}

func bvLit(v *big.Int, w int) string {
	m := new(big.Int).Lsh(big.NewInt(1), uint(w))
	x := new(big.Int).Mod(v, m)
	if w%4 == 0 {
		return fmt.Sprintf("#x%0*s", w/4, x.Text(16))
	}
	return fmt.Sprintf("(_ bv%s %d)", x.String(), w)
}

func intLit(v *big.Int) string {
	if v.Sign() < 0 {
		return "(- " + new(big.Int).Neg(v).String() + ")"
	}
	return v.String()
}

func intLitI(v int64) string { return intLit(big.NewInt(v)) }

func sortOf(k Kind, w int) string {
	switch k {
	case KInt, KRef, KFunc, KMap:
		return "Int"
	case KBool:
		return "Bool"
	case KBV:
		return fmt.Sprintf("(_ BitVec %d)", w)
	case KStr:
		return "Str"
	case KSlice:
		return "Slice"
	case KIface:
		return "Iface"
	}
	return "?"
}

// sortKey is used in heap array names.
func sortKey(k Kind, w int) string {
	switch k {
	case KInt, KRef, KFunc, KMap:
		return "Int"
	case KBool:
		return "Bool"
	case KBV:
		return fmt.Sprintf("BV%d", w)
	case KStr:
		return "Str"
	case KSlice:
		return "Slice"
	case KIface:
		return "Iface"
	}
	return "Bad"
}

func sortOfKey(key string) string {
	switch key {
	case "Int", "Bool", "Str", "Slice", "Iface":
		return key
	}
	if strings.HasPrefix(key, "BV") {
		return "(_ BitVec " + key[2:] + ")"
	}
	return "?"
}

func kindOfType(t types.Type) (Kind, int) {
	switch u := t.Underlying().(type) {
	case *types.Basic:
		info := u.Info()
		switch {
		case info&types.IsBoolean != 0:
			return KBool, 0
		case info&types.IsString != 0:
			return KStr, 0
		case info&types.IsUnsigned != 0:
			switch u.Kind() {
			case types.Uint8:
				return KBV, 8
			case types.Uint16:
				return KBV, 16
			case types.Uint32:
				return KBV, 32
			default:
				return KBV, 64
			}
		case info&types.IsInteger != 0:
			return KInt, intWidth(u)
		case u.Kind() == types.UnsafePointer:
			return KRef, 0
		case u.Kind() == types.UntypedNil:
			return KRef, 0
		}
		return KBad, 0
	case *types.Pointer:
		return KRef, 0
	case *types.Slice:
		return KSlice, 0
	case *types.Interface:
		return KIface, 0
	case *types.Map:
		return KMap, 0
	case *types.Chan:
		return KRef, 0
	case *types.Signature:
		return KFunc, 0
	case *types.Struct:
		return KStruct, 0
	case *types.Tuple:
		return KTuple, 0
	case *types.Array:
		return KArrayVal, 0
	}
	return KBad, 0
}

func intWidth(b *types.Basic) int {
	switch b.Kind() {
	case types.Int8:
		return 8
	case types.Int16:
		return 16
	case types.Int32:
		return 32
	case types.Int64, types.Int, types.UntypedInt, types.UntypedRune:
		return 64
	}
	return 64
}

func isSignedInt(t types.Type) bool {
	b, ok := t.Underlying().(*types.Basic)
	return ok && b.Info()&types.IsInteger != 0 && b.Info()&types.IsUnsigned == 0
}

func intRange(w int) (string, string) {
	lo := new(big.Int).Neg(new(big.Int).Lsh(big.NewInt(1), uint(w-1)))
	hi := new(big.Int).Sub(new(big.Int).Lsh(big.NewInt(1), uint(w-1)), big.NewInt(1))
	return intLit(lo), intLit(hi)
}

func and(ts ...string) string {
	var xs []string
	for _, t := range ts {
		if t == "true" || t == "" {
			continue
		}
		if t == "false" {
			return "false"
		}
		xs = append(xs, t)
	}
	switch len(xs) {
	case 0:
		return "true"
	case 1:
		return xs[0]
	}
	return "(and " + strings.Join(xs, " ") + ")"
}

func or(ts ...string) string {
	var xs []string
	for _, t := range ts {
		if t == "false" || t == "" {
			continue
		}
		if t == "true" {
			return "true"
		}
		xs = append(xs, t)
	}
	switch len(xs) {
	case 0:
		return "false"
	case 1:
		return xs[0]
	}
	return "(or " + strings.Join(xs, " ") + ")"
}

func not(t string) string {
	if t == "true" {
		return "false"
	}
	if t == "false" {
		return "true"
	}
	if strings.HasPrefix(t, "(not ") && strings.HasSuffix(t, ")") {
		inner := t[5 : len(t)-1]
		if balanced(inner) {
			return inner
		}
	}
	return "(not " + t + ")"
}

func balanced(s string) bool {
	d := 0
	for i := 0; i < len(s); i++ {
		if s[i] == '(' {
			d++
		} else if s[i] == ')' {
			d--
			if d < 0 {
				return false
			}
		}
	}
	if d != 0 {
		return false
	}
	// must be a single s-expression or atom
	if strings.HasPrefix(s, "(") {
		d = 0
		for i := 0; i < len(s); i++ {
			if s[i] == '(' {
				d++
			} else if s[i] == ')' {
				d--
				if d == 0 && i != len(s)-1 {
					return false
				}
			}
		}
		return true
	}
	return !strings.ContainsAny(s, " ")
}

func implies(a, b string) string {
	if a == "true" {
		return b
	}
	if b == "true" {
		return "true"
	}
	return "(=> " + a + " " + b + ")"
}

func ite(c, a, b string) string {
	if a == b {
		return a
	}
	if c == "true" {
		return a
	}
	if c == "false" {
		return b
	}
	return "(ite " + c + " " + a + " " + b + ")"
}

func eq(a, b string) string {
	if a == b {
		return "true"
	}
	return "(= " + a + " " + b + ")"
}

func sanitize(s string) string {
	var b strings.Builder
	for _, r := range s {
		switch {
		case r >= 'a' && r <= 'z', r >= 'A' && r <= 'Z', r >= '0' && r <= '9', r == '_', r == '.', r == '!', r == '$':
			b.WriteRune(r)
		case r == '*':
			b.WriteString("P")
		case r == '/':
			b.WriteString(".")
		default:
			b.WriteRune('_')
		}
	}
	return b.String()
}
