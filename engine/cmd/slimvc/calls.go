package main

import (
	"sort"
	"fmt"
	"go/token"
	"go/types"
	"strings"

	"golang.org/x/tools/go/ssa"
)

// ---------------------------------------------------------------------------
// maps (modelled only as far as needed: presence + value arrays keyed by an Int encoding are not provided;
// map operations are reported as outside the subset)

func (f *FuncVC) mapInit(st *State, r string, t types.Type) {}

func (f *FuncVC) execMapUpdate(fr *frame, st *State, x *ssa.MapUpdate) {
	// Map contents are not modelled (no contract speaks about them): an update changes nothing the VCs can see.
	// It is still a write to the map object for the frame condition.
	m := f.val(fr, st, x.Map)
	f.oblig("panic", st, "(not (= "+f.termAs(m, KMap, 0)+" 0))", x.Pos(), "assignment to entry in nil map")
	if f.C != nil {
		g := f.isFreshRef(f.termAs(m, KMap, 0))
		if g != "true" {
			ok := false
			for _, ml := range f.modSet {
				if ml.key == "*" || ml.key == "*maps" {
					ok = true
				}
			}
			if !ok {
				f.oblig("frame", st, g, x.Pos(), "map update writes only fresh memory")
			}
		}
	}
}

func (f *FuncVC) execMapLookup(fr *frame, st *State, x *ssa.Lookup, m Val) {
	// unconstrained result: sound because nothing is ever assumed about map contents
	fr.vals[x] = f.freshVal(st, "maplookup", x.Type())
}

// ---------------------------------------------------------------------------
// calls

var intrinsicPopcnt = map[string]int{
	"math/bits.OnesCount64": 64, "math/bits.OnesCount32": 32, "math/bits.OnesCount16": 16, "math/bits.OnesCount8": 8,
}

func calleeKey(fn *ssa.Function) string { return shortName(fn.String()) }

func (f *FuncVC) execCall(fr *frame, st *State, x *ssa.Call) {
	f.execCall1(fr, st, x)
	if !fr.top || f.C == nil || len(f.C.Ghosts) == 0 {
		return
	}
	com := x.Common()
	name := ""
	if com.IsInvoke() {
		name = com.Method.Name()
	} else if c := com.StaticCallee(); c != nil {
		name = c.Name()
	} else if b, ok := com.Value.(*ssa.Builtin); ok {
		name = b.Name()
	}
	if name == "" {
		return
	}
	f.callOrd[name]++
	for _, g := range f.C.Ghosts {
		if g.Callee != name || g.Ord != f.callOrd[name] || g.C.Expr == nil {
			continue
		}
		env := f.envFor(fr, st, x.Pos())
		if rv, ok := fr.vals[x]; ok {
			// the call's results are visible to the hint as result / result0..k
			if rv.K == KTuple {
				if tp, ok := x.Type().(*types.Tuple); ok {
					for i := range rv.Elems {
						if i < tp.Len() {
							n := fmt.Sprintf("result%d", i)
							env.vars[n] = rv.Elems[i]
							env.vtypes[n] = tp.At(i).Type()
						}
					}
				}
			} else {
				env.vars["result"], env.vtypes["result"] = rv, x.Type()
				env.vars["result0"], env.vtypes["result0"] = rv, x.Type()
			}
		}
		switch g.Kind {
		case "use":
			if err := env.useLemma(g.C.Expr); err != nil {
				f.staleClause(g.C, err)
			}
		case "assert":
			t, err := env.boolExpr(g.C.Expr)
			if err != nil {
				f.staleClause(g.C, err)
				continue
			}
			f.oblig("assert", st, t, x.Pos(), "ghost assertion: "+g.C.Text)
			f.assumeUnder(st, t)
		}
	}
}

func (f *FuncVC) execCall1(fr *frame, st *State, x *ssa.Call) {
	com := x.Common()
	// builtins
	if b, ok := com.Value.(*ssa.Builtin); ok {
		f.execBuiltin(fr, st, x, b)
		return
	}
	var args []Val
	if com.IsInvoke() {
		recv := f.val(fr, st, com.Value)
		args = append(args, recv)
		for _, a := range com.Args {
			args = append(args, f.val(fr, st, a))
		}
		f.oblig("panic", st, "(not (= (i.tag "+recv.T+") 0))", x.Pos(), "method call on nil interface")
		key := ifaceMethodKey(com.Value.Type(), com.Method)
		c := f.G.CS.ByKey[key]
		if c == nil {
			f.unsupportedf("call of interface method %s without contract", key)
			f.havocAll(st)
			fr.vals[x] = f.freshVal(st, "res", x.Type())
			return
		}
		sig := com.Method.Type().(*types.Signature)
		fr.vals[x] = f.applyContract(fr, st, c, nil, sig, args, x.Pos(), x.Type())
		if fr.top {
			f.reachProbe("reach.call", st, x.Pos(), "the point after the call of "+c.Key+" is reachable under its contract")
		}
		return
	}
	callee := com.StaticCallee()
	if callee == nil {
		// call of a function value / closure
		f.unsupportedf("dynamic call in %s", fr.fn.Name())
		f.havocAll(st)
		fr.vals[x] = f.freshVal(st, "res", x.Type())
		return
	}
	full := callee.String()
	// ssa internal helpers
	switch callee.Name() {
	case "ssa:wrapnilchk":
		fr.vals[x] = f.val(fr, st, com.Args[0])
		return
	case "ssa:deferstack":
		fr.vals[x] = Val{K: KRef, T: "0", Typ: x.Type()}
		return
	}
	if callee.Pkg != nil && callee.Pkg.Pkg.Path() == "github.com/openacid/must" {
		// debug assertions compile to no-ops in release builds
		f.assumptions["must.Be.* are no-ops (release build without -tags debug)"] = true
		fr.vals[x] = f.zeroOrFresh(st, x.Type())
		return
	}
	for _, a := range com.Args {
		args = append(args, f.val(fr, st, a))
	}
	if w, ok := intrinsicPopcnt[full]; ok {
		fr.vals[x] = Val{K: KInt, Typ: x.Type(), T: f.define("pc", "Int", fmt.Sprintf("(popcnt%d %s)", w, args[0].T))}
		return
	}
	if r, ok := f.intrinsic(st, full, args, x.Type()); ok {
		fr.vals[x] = r
		return
	}
	key := calleeKey(callee)
	f.callees[key] = true
	c := f.G.CS.ByKey[key]
	if c != nil && !c.Inline {
		sig := callee.Signature
		fr.vals[x] = f.applyContract(fr, st, c, callee, sig, args, x.Pos(), x.Type())
		if fr.top {
			f.reachProbe("reach.call", st, x.Pos(), "the point after the call of "+c.Key+" is reachable under its contract")
		}
		return
	}
	// inline small loop-free callees
	if len(callee.Blocks) > 0 && fr.depth < f.G.MaxInl && (c != nil && c.Inline || loopFree(callee)) && !f.onStack(fr, callee) {
		fr.vals[x] = f.inlineCall(fr, st, callee, args, x)
		return
	}
	f.unsupportedf("call of %s needs a contract", key)
	f.havocAll(st)
	fr.vals[x] = f.freshVal(st, "res", x.Type())
}

func (f *FuncVC) zeroOrFresh(st *State, t types.Type) Val {
	if tp, ok := t.(*types.Tuple); ok {
		if tp.Len() == 0 {
			return Val{K: KTuple}
		}
	}
	return f.freshVal(st, "res", t)
}

func ifaceMethodKey(it types.Type, m *types.Func) string {
	name := "?"
	if n, ok := it.(*types.Named); ok {
		name = n.Obj().Name()
		if n.Obj().Pkg() != nil {
			name = n.Obj().Pkg().Name() + "." + name
		}
	}
	return name + "." + m.Name()
}

func loopFree(fn *ssa.Function) bool {
	for _, b := range fn.Blocks {
		for _, s := range b.Succs {
			if s.Dominates(b) {
				return false
			}
		}
	}
	return true
}

func (f *FuncVC) onStack(fr *frame, fn *ssa.Function) bool {
	return f.inlineStack[fn] > 0
}

func (f *FuncVC) inlineCall(fr *frame, st *State, callee *ssa.Function, args []Val, x *ssa.Call) Val {
	f.inlined[calleeKey(callee)] = true
	f.inlineStack[callee]++
	defer func() { f.inlineStack[callee]-- }()
	sub := f.newFrame(callee, fr.depth+1)
	sub.label = fr.label + "i" + fmt.Sprint(f.nfresh)
	for i, p := range callee.Params {
		if i < len(args) {
			sub.vals[p] = args[i]
		}
	}
	if len(callee.FreeVars) > 0 {
		f.unsupportedf("inlining closure %s", callee.Name())
	}
	f.execFrame(sub, st)
	if len(sub.returns) == 0 {
		// callee never returns normally
		st.reach = "false"
		return f.zeroOrFresh(st, x.Type())
	}
	var conds []string
	var sts []*State
	for _, r := range sub.returns {
		conds = append(conds, r.st.reach)
		sts = append(sts, r.st)
	}
	m := f.mergeStates(conds, sts, sub.label+".ret")
	// keep caller's cells that the callee did not know about
	for a, v := range st.cells {
		if _, ok := m.cells[a]; !ok {
			m.cells[a] = v
		}
	}
	*st = *m
	nres := callee.Signature.Results().Len()
	if nres == 0 {
		return Val{K: KTuple}
	}
	var outs []Val
	for i := 0; i < nres; i++ {
		var vs []Val
		for _, r := range sub.returns {
			vs = append(vs, r.vals[i])
		}
		outs = append(outs, f.mergeVals(conds, vs, "ret"))
	}
	if nres == 1 {
		return outs[0]
	}
	return Val{K: KTuple, Elems: outs, Typ: x.Type()}
}

// intrinsic handles a few standard-library functions by their mathematical meaning.
func (f *FuncVC) intrinsic(st *State, full string, args []Val, rt types.Type) (Val, bool) {
	switch full {
	case "math/bits.TrailingZeros8", "math/bits.TrailingZeros64", "math/bits.LeadingZeros64", "math/bits.LeadingZeros32", "math/bits.Len64", "math/bits.Len32":
		name := strings.ToLower(strings.TrimPrefix(full, "math/bits."))
		w := args[0].W
		fn := "bits." + name
		f.declareFun(fn, fmt.Sprintf("((_ BitVec %d)) Int", w))
		t := f.define("bits", "Int", "("+fn+" "+args[0].T+")")
		f.assume(fmt.Sprintf("(and (<= 0 %s) (<= %s %d))", t, t, w))
		if strings.HasPrefix(name, "trailingzeros") {
			// exact characterisation of trailing zeros
			x := args[0].T
			f.assume(fmt.Sprintf("(=> (= %s %s) (= %s %d))", x, bvLit(bigZero, w), t, w))
			f.assume(fmt.Sprintf("(=> (not (= %[1]s %[2]s)) (and (< %[3]s %[4]d) (= ((_ extract 0 0) (shr%[4]di %[1]s %[3]s)) #b1) (= (bvand %[1]s (bvnot (bvshl (bvnot %[2]s) (i2b%[4]d %[3]s)))) %[2]s)))", x, bvLit(bigZero, w), t, w))
		}
		return Val{K: KInt, T: t, Typ: rt}, true
	}
	return Val{}, false
}

// ---------------------------------------------------------------------------
// builtins

func (f *FuncVC) execBuiltin(fr *frame, st *State, x *ssa.Call, b *ssa.Builtin) {
	com := x.Common()
	switch b.Name() {
	case "len", "cap":
		v := f.val(fr, st, com.Args[0])
		switch v.K {
		case KSlice:
			sel := "s.len"
			if b.Name() == "cap" {
				sel = "s.cap"
			}
			fr.vals[x] = Val{K: KInt, Typ: x.Type(), T: "(" + sel + " " + v.T + ")"}
		case KStr:
			fr.vals[x] = Val{K: KInt, Typ: x.Type(), T: "(slen " + v.T + ")"}
		case KMap:
			f.unsupportedf("len of map")
			fr.vals[x] = f.freshVal(st, "maplen", x.Type())
		default:
			if pt, ok := com.Args[0].Type().Underlying().(*types.Pointer); ok {
				if a, ok := pt.Elem().Underlying().(*types.Array); ok {
					fr.vals[x] = Val{K: KInt, Typ: x.Type(), T: fmt.Sprint(a.Len())}
					return
				}
			}
			if a, ok := com.Args[0].Type().Underlying().(*types.Array); ok {
				fr.vals[x] = Val{K: KInt, Typ: x.Type(), T: fmt.Sprint(a.Len())}
				return
			}
			f.unsupportedf("len of kind %d", v.K)
			fr.vals[x] = f.freshVal(st, "len", x.Type())
		}
	case "append":
		f.execAppend(fr, st, x)
	case "copy":
		f.execCopy(fr, st, x)
	case "panic":
		f.execPanic(fr, st, x.Pos(), "explicit panic")
		st.reach = "false"
	case "ssa:wrapnilchk":
		fr.vals[x] = f.val(fr, st, com.Args[0])
	case "ssa:deferstack":
		fr.vals[x] = Val{K: KRef, T: "0", Typ: x.Type()}
	case "print", "println":
	default:
		f.unsupportedf("builtin %s", b.Name())
		if x.Type() != nil {
			fr.vals[x] = f.zeroOrFresh(st, x.Type())
		}
	}
}

// execAppend models append(s, t...) where t is a slice or a string.
func (f *FuncVC) execAppend(fr *frame, st *State, x *ssa.Call) {
	com := x.Common()
	s := f.val(fr, st, com.Args[0])
	t := f.val(fr, st, com.Args[1])
	et := x.Type().Underlying().(*types.Slice).Elem()
	k, w := kindOfType(et)
	if s.K != KSlice || (t.K != KSlice && t.K != KStr) {
		f.unsupportedf("append with unsupported operands")
		fr.vals[x] = f.freshVal(st, "append", x.Type())
		return
	}
	var n string
	if t.K == KStr {
		n = "(slen " + t.T + ")"
	} else {
		n = "(s.len " + t.T + ")"
	}
	newLen := f.define("alen", "Int", "(+ (s.len "+s.T+") "+n+")")
	inplace := f.define("inplace", "Bool", "(<= "+newLen+" (s.cap "+s.T+"))")
	rnew := f.newRef(st, "append")
	ncap := f.freshConst("acap", "Int")
	f.assume("(>= " + ncap + " " + newLen + ")")
	res := f.define("app", "Slice", "(ite "+inplace+" (mkslice (s.arr "+s.T+") (s.off "+s.T+") "+newLen+" (s.cap "+s.T+")) (mkslice "+rnew+" 0 "+newLen+" "+ncap+"))")
	fr.vals[x] = Val{K: KSlice, Typ: x.Type(), T: res}
	if k == KStruct {
		// struct elements: element objects of the result
		f.appendStructs(fr, st, s, t, res, inplace, rnew, et, x.Pos())
		return
	}
	if k == KArrayVal || k == KBad {
		f.unsupportedf("append of element type %s", et)
		return
	}
	key := "E." + sortKey(k, w)
	es := elemArraySort(k, w)
	cs := "(Array Int " + sortOf(k, w) + ")"
	E := f.heapGet(st, key, es)
	srcAt := func(j string) string {
		if t.K == KStr {
			return "(sat " + t.T + " " + j + ")"
		}
		return "(select (select " + E + " (s.arr " + t.T + ")) (+ (s.off " + t.T + ") " + j + "))"
	}
	oldA := "(select " + E + " (s.arr " + s.T + "))"
	base := f.define("abase", "Int", "(+ (s.off "+s.T+") (s.len "+s.T+"))")
	// in-place array
	var ain string
	if n == "1" || (t.K == KSlice && f.knownLen1[t.T]) {
		ain = "(store " + oldA + " " + base + " " + srcAt("0") + ")"
	} else {
		a := f.freshConst("ain", cs)
		f.assume("(forall ((k Int)) (! (= (select " + a + " k) (ite (and (<= " + base + " k) (< k (+ " + base + " " + n + "))) " + srcAt("(- k "+base+")") + " (select " + oldA + " k))) :pattern ((select " + a + " k))))")
		ain = a
	}
	// fresh array
	an := f.freshConst("anew", cs)
	f.assume("(forall ((k Int)) (! (=> (and (<= 0 k) (< k " + newLen + ")) (= (select " + an + " k) (ite (< k (s.len " + s.T + ")) (select " + oldA + " (+ (s.off " + s.T + ") k)) " + srcAt("(- k (s.len "+s.T+"))") + "))) :pattern ((select " + an + " k))))")
	// frame: an in-place append writes the shared backing array
	if f.C != nil {
		l := &Loc{K: LElem, Ref: "(s.arr " + s.T + ")", Idx: base, Typ: et}
		g := f.writable(st, l)
		if g != "true" {
			f.oblig("frame", st, implies(and(inplace, "(> "+n+" 0)"), g), x.Pos(), "in-place append writes only `modifies` or fresh memory")
		}
	}
	f.heapSet(st, key, es, "(ite "+inplace+" (store "+E+" (s.arr "+s.T+") "+ain+") (store "+E+" "+rnew+" "+an+"))")
}

func (f *FuncVC) appendStructs(fr *frame, st *State, s, t Val, res, inplace, rnew string, et types.Type, pos token.Pos) {
	// Only the single-element form append(s, v) is modelled for struct elements: element fields are copied.
	if !f.knownLen1[t.T] {
		f.unsupportedf("append of several struct elements")
		return
	}
	src := &Loc{K: LObj, Ref: "(eltref (s.arr " + t.T + ") (s.off " + t.T + "))", Typ: et}
	v := f.load(st, src)
	// the fresh-array case copies the old elements: havoc fields, then constrain
	sty := et.Underlying().(*types.Struct)
	oldLen := "(s.len " + s.T + ")"
	// res is a macro for an ite term, which may not occur in patterns: name its array and offset
	resT := res
	ra := f.freshConst("apparr", "Int")
	ro := f.freshConst("appoff", "Int")
	f.assume("(and (= " + ra + " (s.arr " + resT + ")) (= " + ro + " (s.off " + resT + ")))")
	for i := 0; i < sty.NumFields(); i++ {
		ft := sty.Field(i).Type()
		k, w := kindOfType(ft)
		if k == KStruct || k == KArrayVal || k == KBad {
			f.unsupportedf("append: nested struct element field")
			continue
		}
		key := fieldKey(et, i)
		srt := fieldArraySort(k, w)
		old := f.heapGet(st, key, srt)
		n := f.freshConst(key, srt)
		st.heap[key] = n
		newElt := "(eltref " + ra + " (+ " + ro + " " + oldLen + "))"
		f.assume("(= (select " + n + " " + newElt + ") " + f.termAs(v.Elems[i], k, w) + ")")
		// old elements copied when reallocated
		f.assume("(forall ((j Int)) (! (=> (and (<= 0 j) (< j " + oldLen + ")) (= (select " + n + " (eltref " + ra + " (+ " + ro + " j))) (select " + old + " (eltref (s.arr " + s.T + ") (+ (s.off " + s.T + ") j))))) :pattern ((select " + n + " (eltref " + ra + " (+ " + ro + " j))))))")
		// everything else unchanged
		f.assume("(forall ((r Int)) (! (=> (not (and (< r 0) (= (eltref.arr r) " + ra + ") (or (not " + inplace + ") (= (eltref.idx r) (+ " + ro + " " + oldLen + "))))) (= (select " + n + " r) (select " + old + " r))) :pattern ((select " + n + " r))))")
	}
}

func (f *FuncVC) execCopy(fr *frame, st *State, x *ssa.Call) {
	com := x.Common()
	d := f.val(fr, st, com.Args[0])
	s := f.val(fr, st, com.Args[1])
	et := com.Args[0].Type().Underlying().(*types.Slice).Elem()
	k, w := kindOfType(et)
	if d.K != KSlice || (s.K != KSlice && s.K != KStr) || k == KStruct || k == KBad || k == KArrayVal {
		f.unsupportedf("copy with unsupported operands")
		fr.vals[x] = f.freshVal(st, "copy", x.Type())
		return
	}
	var sl string
	if s.K == KStr {
		sl = "(slen " + s.T + ")"
	} else {
		sl = "(s.len " + s.T + ")"
	}
	n := f.define("ncopy", "Int", "(ite (< (s.len "+d.T+") "+sl+") (s.len "+d.T+") "+sl+")")
	key := "E." + sortKey(k, w)
	es := elemArraySort(k, w)
	E := f.heapGet(st, key, es)
	srcAt := func(j string) string {
		if s.K == KStr {
			return "(sat " + s.T + " " + j + ")"
		}
		return "(select (select " + E + " (s.arr " + s.T + ")) (+ (s.off " + s.T + ") " + j + "))"
	}
	if f.C != nil {
		l := &Loc{K: LElem, Ref: "(s.arr " + d.T + ")", Idx: "(s.off " + d.T + ")", Typ: et}
		g := f.writable(st, l)
		if g != "true" {
			f.oblig("frame", st, implies("(> "+n+" 0)", g), x.Pos(), "copy writes only `modifies` or fresh memory")
		}
	}
	a := f.freshConst("acopy", "(Array Int "+sortOf(k, w)+")")
	oldA := "(select " + E + " (s.arr " + d.T + "))"
	f.assume("(forall ((k Int)) (! (= (select " + a + " k) (ite (and (<= (s.off " + d.T + ") k) (< k (+ (s.off " + d.T + ") " + n + "))) " + srcAt("(- k (s.off "+d.T+"))") + " (select " + oldA + " k))) :pattern ((select " + a + " k))))")
	f.heapSet(st, key, es, "(store "+E+" (s.arr "+d.T+") "+a+")")
	fr.vals[x] = Val{K: KInt, Typ: x.Type(), T: n}
}

// ---------------------------------------------------------------------------
// contract application at a call site

func paramNames(callee *ssa.Function, sig *types.Signature, invoke bool) []string {
	var names []string
	if callee != nil && len(callee.Params) > 0 {
		for i, p := range callee.Params {
			n := p.Name()
			if n == "" || n == "_" {
				n = fmt.Sprintf("a%d", i)
			}
			names = append(names, n)
		}
		return names
	}
	if sig.Recv() != nil || invoke {
		n := "recv"
		if sig.Recv() != nil && sig.Recv().Name() != "" && sig.Recv().Name() != "_" && !invoke {
			n = sig.Recv().Name()
		}
		names = append(names, n)
	}
	for i := 0; i < sig.Params().Len(); i++ {
		n := sig.Params().At(i).Name()
		if n == "" || n == "_" {
			n = fmt.Sprintf("a%d", i)
		}
		names = append(names, n)
	}
	return names
}

func paramTypes(callee *ssa.Function, sig *types.Signature, recvType types.Type) []types.Type {
	var ts []types.Type
	if callee != nil && len(callee.Params) > 0 {
		for _, p := range callee.Params {
			ts = append(ts, p.Type())
		}
		return ts
	}
	if recvType != nil {
		ts = append(ts, recvType)
	} else if sig.Recv() != nil {
		ts = append(ts, sig.Recv().Type())
	}
	for i := 0; i < sig.Params().Len(); i++ {
		ts = append(ts, sig.Params().At(i).Type())
	}
	return ts
}

func (f *FuncVC) applyContract(fr *frame, st *State, c *Contract, callee *ssa.Function, sig *types.Signature, args []Val, pos token.Pos, rt types.Type) Val {
	invoke := callee == nil
	names := paramNames(callee, sig, invoke)
	var recvT types.Type
	if invoke {
		recvT = types.NewInterfaceType(nil, nil)
	}
	ptypes := paramTypes(callee, sig, recvT)
	if c.AssumeDep != "" {
		f.assumptions["assumed contract "+c.Key+": "+c.AssumeDep] = true
	}
	f.usedContracts[c.Key] = true
	mk := func(cur, old *State) *Env {
		e := &Env{f: f, st: cur, old: old, vars: map[string]Val{}, vtypes: map[string]types.Type{}, pkg: f.G.pkgByPath(c.Pkg), contract: c}
		for i, n := range names {
			if i < len(args) && i < len(ptypes) {
				e.vars[n] = args[i]
				e.vtypes[n] = ptypes[i]
			}
		}
		return e
	}
	pre := st.clone()
	// preconditions
	for _, r := range c.Requires {
		if r.Expr == nil {
			continue
		}
		env := mk(st, pre)
		t, err := env.boolExpr(r.Expr)
		if err != nil {
			f.staleClause(r, err)
			continue
		}
		f.oblig("pre("+shortCallee(c.Key)+")", st, t, pos, "precondition of "+c.Key+": "+r.Text)
	}
	// frame: what the callee may write must be writable by us
	for _, m := range c.Modifies {
		if m.Expr == nil {
			continue
		}
		env := mk(st, pre)
		locs, err := env.modLocs(m.Expr)
		if err != nil {
			f.staleClause(m, err)
			continue
		}
		for _, l := range locs {
			if f.C != nil {
				g := f.writableMod(st, l)
				if g != "true" {
					f.oblig("frame", st, g, pos, "callee "+c.Key+" modifies "+m.Text+": within our `modifies` or fresh")
				}
			}
		}
		for _, l := range locs {
			f.havocMod(st, l)
		}
	}
	if c.Havoc != "" {
		f.assumptions["call of "+c.Key+" abstracted by total havoc (nothing assumed about its effects; its own panics/termination are not covered here): "+c.Havoc] = true
		f.havocAll(st)
	}
	if c.Allocates || c.mentionsFresh() {
		f.havocHeapKey(st, "alloc")
	}
	// results
	var res Val
	nres := sig.Results().Len()
	var results []Val
	for i := 0; i < nres; i++ {
		results = append(results, f.freshVal(st, "r."+shortCallee(c.Key), sig.Results().At(i).Type()))
	}
	switch nres {
	case 0:
		res = Val{K: KTuple}
	case 1:
		res = results[0]
	default:
		res = Val{K: KTuple, Elems: results, Typ: rt}
	}
	if len(c.Defines) > 0 {
		f.assumptions["naming clause of "+c.Key+" (its result is a function of its arguments and the heap it reads: deterministic call tree, read-only by the frame back end): "+c.Defines[0].Text] = true
	}
	for _, e := range append(append([]*Clause{}, c.Ensures...), c.Defines...) {
		if e.Expr == nil {
			continue
		}
		env := mk(st, pre)
		env.bindResults(results, sig, c)
		t, err := env.boolExpr(e.Expr)
		if err != nil {
			f.staleClause(e, err)
			continue
		}
		f.assumeUnder(st, t)
	}
	return res
}

func shortCallee(key string) string {
	if i := strings.LastIndex(key, "."); i >= 0 {
		return sanitize(key[i+1:])
	}
	return sanitize(key)
}

func (f *FuncVC) writableMod(st *State, m modLoc) string {
	if m.key == "alloc" {
		return "true"
	}
	if m.key == "*maps" {
		for _, mine := range f.modSet {
			if mine.key == "*maps" {
				return "true"
			}
		}
		return "false"
	}
	alts := []string{f.isFreshRef(m.ref)}
	if alts[0] == "true" {
		return "true"
	}
	if !strings.HasPrefix(m.key, "E.") && !strings.HasPrefix(m.key, "E:") {
		// a field of the nil object cannot be written (the store would panic): the item is vacuous for this call
		alts = append(alts, "(= "+m.ref+" 0)")
	}
	for _, mine := range f.modSet {
		if mine.key == m.key || mine.key == "*" {
			alts = append(alts, eq(m.ref, mine.ref))
		}
	}
	return or(alts...)
}

func (f *FuncVC) havocMod(st *State, m modLoc) {
	srt := f.hsort[m.key]
	if srt == "" {
		return
	}
	old := f.heapGet(st, m.key, srt)
	if strings.HasPrefix(m.key, "G.") {
		n := f.freshConst(m.key, srt)
		st.heap[m.key] = n
		return
	}
	// element sort of the array
	inner := strings.TrimSuffix(strings.TrimPrefix(srt, "(Array Int "), ")")
	v := f.freshConst("hv."+m.key, inner)
	f.heapSet(st, m.key, srt, "(store "+old+" "+m.ref+" "+v+")")
}

func (c *Contract) mentionsFresh() bool {
	for _, e := range c.Ensures {
		if strings.Contains(e.Text, "fresh(") {
			return true
		}
	}
	return false
}

// havocAll forgets every heap component (allocation only grows) and starts a new epoch for components not seen yet.
func (f *FuncVC) havocAll(st *State) {
	var keys []string
	for k := range f.hsort {
		keys = append(keys, k)
	}
	sort.Strings(keys)
	for _, k := range keys {
		f.havocHeapKey(st, k)
	}
	f.epochCtr++
	st.epoch = f.epochCtr
}
