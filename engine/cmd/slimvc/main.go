package main

import (
	"golang.org/x/tools/go/ssa"
	"encoding/json"
	"flag"
	"fmt"
	"os"
	"path/filepath"
	"sort"
	"strings"
	"sync"
	"time"
)

type Report struct {
	Repo          string        `json:"repo"`
	Property      string        `json:"property,omitempty"`
	Functions     []*FuncResult `json:"functions"`
	ContractFiles []string      `json:"contract_files"`
	ContractNotes []string      `json:"contract_notes,omitempty"`
	ParseErrors   []string      `json:"contract_parse_errors,omitempty"`
	StaleFuncs    []string      `json:"stale_function_contracts,omitempty"`
	AssumedUsed   []string      `json:"assumed_contracts"`
	WallS         float64       `json:"wall_s"`
	LoadS         float64       `json:"load_s"`
}

func main() {
	if len(os.Args) < 2 {
		fmt.Fprintln(os.Stderr, "usage: slimvc verify|list|dump ...")
		os.Exit(2)
	}
	switch os.Args[1] {
	case "verify":
		cmdVerify(os.Args[2:])
	case "lemmas":
		cmdLemmas(os.Args[2:])
	default:
		fmt.Fprintln(os.Stderr, "unknown command")
		os.Exit(2)
	}
}

func cmdVerify(args []string) {
	fs := flag.NewFlagSet("verify", flag.ExitOnError)
	repo := fs.String("repo", "/repo", "repository root")
	deps := fs.String("deps", "/verif/contracts/deps", "dependency contracts dir")
	mirror := fs.String("mirror", "/verif/contracts/mirror", "mirror of repo contract files")
	prop := fs.String("prop", "", "property id (verify the functions tagged with it)")
	only := fs.String("func", "", "verify only this function key (substring)")
	out := fs.String("out", "", "output json")
	smtDir := fs.String("smtdir", "", "directory for SMT files")
	prelude := fs.String("prelude", "/verif/spec/prelude.smt2", "prelude file")
	quickMs := fs.Int("quickms", 3000, "per-obligation timeout in the batch pass (ms)")
	slow := fs.Int("slow", 20, "per-obligation timeout of the portfolio pass (s)")
	jobs := fs.Int("j", 8, "functions verified in parallel")
	verbose := fs.Bool("v", false, "verbose")
	unclaimedFile := fs.String("unclaimed", "", "baseline/unclaimed.json: these obligations get the fast pass only")
	cacheIn := fs.String("cache", "", "proof cache to read (unsat answers by query hash)")
	cacheOut := fs.String("cacheout", "", "append newly proved query hashes here")
	fs.Parse(args)
	t0 := time.Now()
	P, err := loadProgram(*repo)
	if err != nil {
		fmt.Fprintln(os.Stderr, "load error:", err)
		os.Exit(2)
	}
	loadS := time.Since(t0).Seconds()
	cs, notes, err := loadContracts(P, *deps, *mirror)
	if err != nil {
		fmt.Fprintln(os.Stderr, "contract error:", err)
		os.Exit(2)
	}
	g := &Gen{P: P, CS: cs, tags: map[string]int{}, MaxInl: 4}
	if err := g.loadPreludes(filepath.Dir(*prelude)); err != nil {
		fmt.Fprintln(os.Stderr, "prelude:", err)
		os.Exit(2)
	}
	if *cacheIn != "" {
		proofCache.load(*cacheIn)
	}
	if *unclaimedFile != "" {
		loadUnclaimed(*unclaimedFile)
	}
	defer proofCache.flush(*cacheOut)
	if *smtDir == "" {
		d, _ := os.MkdirTemp("", "slimvc")
		*smtDir = d
	}
	os.MkdirAll(*smtDir, 0o755)
	rep := &Report{Repo: *repo, Property: *prop, ContractFiles: cs.Files, ContractNotes: notes, ParseErrors: cs.Errors, LoadS: loadS}
	var keys []string
	depKeys := map[string]bool{}
	for k, c := range cs.ByKey {
		if *prop != "" {
			has := false
			for _, p := range c.Props {
				if p == *prop {
					has = true
				}
			}
			if !has {
				continue
			}
		}
		if *only != "" && !strings.Contains(k, *only) {
			continue
		}
		keys = append(keys, k)
	}
	if *prop != "" {
		// dependency closure: a property's check re-verifies every function under contract that the selected functions
		// call (directly or through uncontracted, inlined callees), transitively: the proof of a caller relies on the
		// callee's contract, so a change that breaks the callee's contract breaks the property's proof
		sel := map[string]bool{}
		for _, k := range keys {
			sel[k] = true
		}
		type item struct {
			fn    *ssa.Function
			depth int
		}
		var work []item
		seen := map[*ssa.Function]bool{}
		for _, k := range keys {
			if fn := P.Funcs[k]; fn != nil {
				work = append(work, item{fn, 0})
			}
		}
		for len(work) > 0 {
			it := work[len(work)-1]
			work = work[:len(work)-1]
			if seen[it.fn] || it.fn.Blocks == nil {
				continue
			}
			seen[it.fn] = true
			for _, b := range it.fn.Blocks {
				for _, in := range b.Instrs {
					cc, ok := in.(ssa.CallInstruction)
					if !ok {
						continue
					}
					callee := cc.Common().StaticCallee()
					if callee == nil {
						continue
					}
					ck := calleeKey(callee)
					if c := cs.ByKey[ck]; c != nil {
						if !sel[ck] {
							sel[ck] = true
							keys = append(keys, ck)
							depKeys[ck] = true
						}
						if c.AssumeDep == "" && !c.NoBody && c.Havoc == "" {
							work = append(work, item{callee, 0})
						}
					} else if it.depth < 4 {
						work = append(work, item{callee, it.depth + 1})
					}
				}
			}
			for _, af := range it.fn.AnonFuncs {
				work = append(work, item{af, it.depth})
			}
		}
	}
	sort.Strings(keys)
	results := make([]*FuncResult, len(keys))
	var wg sync.WaitGroup
	sem := make(chan struct{}, *jobs)
	for i, k := range keys {
		c := cs.ByKey[k]
		if c.AssumeDep != "" || c.NoBody || c.Havoc != "" {
			results[i] = &FuncResult{Key: k, Props: c.Props, AssumedOnly: true}
			continue
		}
		if P.Funcs[k] == nil {
			rep.StaleFuncs = append(rep.StaleFuncs, k)
			results[i] = &FuncResult{Key: k, Props: c.Props, Error: "function not found (stale contract)"}
			continue
		}
		wg.Add(1)
		go func(i int, k string, c *Contract) {
			defer wg.Done()
			sem <- struct{}{}
			defer func() { <-sem }()
			results[i] = g.verifyFunction(k, c, *smtDir, *quickMs, time.Duration(*slow)*time.Second)
		}(i, k, c)
	}
	wg.Wait()
	// the lemmas the verified functions instantiate are proved in the same run
	usedLemmas := map[string]bool{}
	for _, r := range results {
		if r != nil {
			for _, l := range r.Lemmas {
				usedLemmas[l] = true
			}
		}
	}
	if ln := g.lemmaClosure(usedLemmas); len(ln) > 0 {
		results = append(results, g.proveLemmasAsFunc(ln, *smtDir, 60*time.Second))
	}
	assumed := map[string]bool{}
	nob, nok, nfail, nund := 0, 0, 0, 0
	for _, r := range results {
		if r == nil {
			continue
		}
		rep.Functions = append(rep.Functions, r)
		for _, a := range r.Assumptions {
			assumed[a] = true
		}
		for _, o := range r.Obligations {
			nob++
			switch o.Status {
			case "discharged":
				nok++
			case "failed", "vacuous":
				nfail++
			default:
				nund++
			}
			if *verbose || o.Status != "discharged" {
				fmt.Printf("%-10s %s  [%s]  %s  %s\n", strings.ToUpper(o.Status), o.Name, o.Pos, o.Detail, o.Output)
			}
		}
		if r.Error != "" {
			fmt.Printf("ERROR      %s: %s\n", r.Key, r.Error)
		}
		for _, u := range r.Unsupported {
			fmt.Printf("SUBSET     %s: %s\n", r.Key, u)
		}
		for _, s := range r.Stale {
			fmt.Printf("STALE      %s: %s\n", r.Key, s)
		}
	}
	for a := range assumed {
		rep.AssumedUsed = append(rep.AssumedUsed, a)
	}
	sort.Strings(rep.AssumedUsed)
	for _, e := range cs.Errors {
		fmt.Println("CONTRACT-PARSE-ERROR", e)
	}
	rep.WallS = time.Since(t0).Seconds()
	fmt.Printf("functions=%d obligations=%d discharged=%d failed=%d undecided=%d wall=%.1fs (load %.1fs) smt=%s\n", len(rep.Functions), nob, nok, nfail, nund, rep.WallS, loadS, *smtDir)
	if *out != "" {
		os.MkdirAll(filepath.Dir(*out), 0o755)
		data, _ := json.MarshalIndent(rep, "", " ")
		os.WriteFile(*out, data, 0o644)
	}
	proofCache.flush(*cacheOut)
	if nfail > 0 {
		os.Exit(1)
	}
}

type unclaimedEnt struct {
	Function string `json:"function"`
	Kind     string `json:"kind"`
	Detail   string `json:"detail"`
}

var unclaimedList []unclaimedEnt

func loadUnclaimed(path string) {
	data, err := os.ReadFile(path)
	if err != nil {
		return
	}
	var d struct {
		Unclaimed []unclaimedEnt `json:"unclaimed"`
	}
	if json.Unmarshal(data, &d) == nil {
		unclaimedList = d.Unclaimed
	}
}

func isUnclaimed(o *Obligation) bool {
	for _, u := range unclaimedList {
		if u.Function == o.Func && u.Kind == o.Kind && (u.Detail == "" || strings.Contains(o.Detail, u.Detail)) {
			return true
		}
	}
	return false
}
