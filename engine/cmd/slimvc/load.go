package main

import (
	"fmt"
	"go/ast"
	"go/token"
	"go/types"
	"os"
	"path/filepath"
	"sort"
	"strings"
	"sync"

	"golang.org/x/tools/go/packages"
	"golang.org/x/tools/go/ssa"
	"golang.org/x/tools/go/ssa/ssautil"
)

// Program is the loaded repository plus dependencies in naive-form SSA.
type Program struct {
	Repo   string
	Fset   *token.FileSet
	Prog   *ssa.Program
	Pkgs   map[string]*packages.Package // by import path (all, incl. deps)
	Funcs  map[string]*ssa.Function     // by short qualified name, e.g. "trie.(*SlimTrie).getNode", and by full name
	decls  map[*ssa.Function]*ast.FuncDecl
	ModDir map[string]string
}

var repoPatterns = []string{"./trie", "./encode", "./array", "./index"}

func loadProgram(repo string) (*Program, error) {
	cfg := &packages.Config{
		Mode:       packages.LoadAllSyntax,
		Dir:        repo,
		BuildFlags: []string{"-tags=verif"},
		Env:        append(os.Environ(), "GOFLAGS=-mod=mod", "GOPROXY=off", "GOSUMDB=off", "GOTOOLCHAIN=local"),
	}
	pkgs, err := packages.Load(cfg, repoPatterns...)
	if err != nil {
		return nil, err
	}
	for _, p := range pkgs {
		if len(p.Errors) > 0 {
			return nil, fmt.Errorf("package %s: %v", p.PkgPath, p.Errors[0])
		}
	}
	prog, _ := ssautil.AllPackages(pkgs, ssa.NaiveForm|ssa.GlobalDebug)
	prog.Build()
	P := &Program{Repo: repo, Prog: prog, Fset: prog.Fset, Pkgs: map[string]*packages.Package{}, Funcs: map[string]*ssa.Function{}, decls: map[*ssa.Function]*ast.FuncDecl{}}
	packages.Visit(pkgs, nil, func(p *packages.Package) { P.Pkgs[p.PkgPath] = p })
	for fn := range ssautil.AllFunctions(prog) {
		if fn.Synthetic != "" && !strings.HasPrefix(fn.Synthetic, "package initializer") {
			// wrappers, bound methods, instantiations: not addressable by contracts
			if fn.Parent() == nil {
				continue
			}
		}
		if fn.Pkg == nil && fn.Parent() == nil {
			continue
		}
		full := fn.String()
		P.Funcs[full] = fn
		P.Funcs[shortName(full)] = fn
	}
	return P, nil
}

// shortName turns "(*github.com/openacid/slim/trie.SlimTrie).getNode" into
// "trie.(*SlimTrie).getNode" and "github.com/openacid/low/bitmap.Rank64" into
// "bitmap.Rank64".
func shortName(full string) string {
	// strip directory part of every import path occurring in the name
	out := full
	for {
		i := strings.LastIndex(out, "/")
		if i < 0 {
			break
		}
		// find start of the path: walk back to a delimiter
		j := i
		for j > 0 && !strings.ContainsRune("(* ,)", rune(out[j-1])) {
			j--
		}
		out = out[:j] + out[i+1:]
	}
	// move package qualifier in front of receiver: "(*trie.SlimTrie).f" -> "trie.(*SlimTrie).f"
	if strings.HasPrefix(out, "(") {
		end := strings.Index(out, ")")
		if end > 0 {
			recv := out[1:end]
			star := ""
			if strings.HasPrefix(recv, "*") {
				star = "*"
				recv = recv[1:]
			}
			if k := strings.Index(recv, "."); k >= 0 {
				out = recv[:k] + ".(" + star + recv[k+1:] + ")" + out[end+1:]
			}
		}
	}
	return out
}

func (P *Program) posStr(pos token.Pos) string {
	if !pos.IsValid() {
		return "?"
	}
	p := P.Fset.Position(pos)
	f := p.Filename
	if rel, err := filepath.Rel(P.Repo, f); err == nil && !strings.HasPrefix(rel, "..") {
		f = rel
	} else if i := strings.Index(f, "/pkg/mod/"); i >= 0 {
		f = f[i+9:]
	}
	return fmt.Sprintf("%s:%d", f, p.Line)
}

// funcDecl returns the syntax of fn (nil for synthetic functions).
func (P *Program) funcDecl(fn *ssa.Function) *ast.FuncDecl {
	if d, ok := P.decls[fn]; ok {
		return d
	}
	var res *ast.FuncDecl
	if fd, ok := fn.Syntax().(*ast.FuncDecl); ok {
		res = fd
	}
	P.decls[fn] = res
	return res
}

func (P *Program) pkgOf(fn *ssa.Function) *packages.Package {
	if fn.Pkg == nil {
		if fn.Parent() != nil {
			return P.pkgOf(fn.Parent())
		}
		return nil
	}
	return P.Pkgs[fn.Pkg.Pkg.Path()]
}

// loopStmts returns the for/range statements of a function body in source order.
func loopStmts(body ast.Node) []ast.Stmt {
	var out []ast.Stmt
	ast.Inspect(body, func(n ast.Node) bool {
		switch s := n.(type) {
		case *ast.FuncLit:
			if n != body {
				return false
			}
		case *ast.ForStmt:
			out = append(out, s)
		case *ast.RangeStmt:
			out = append(out, s)
		}
		return true
	})
	sort.SliceStable(out, func(i, j int) bool { return out[i].Pos() < out[j].Pos() })
	return out
}

// lookupVar resolves an identifier as Go would at position pos inside fn.
func (P *Program) lookupVar(fn *ssa.Function, name string, pos token.Pos) types.Object {
	pkg := P.pkgOf(fn)
	if pkg == nil {
		return nil
	}
	var scope *types.Scope
	if syn := fn.Syntax(); syn != nil {
		switch s := syn.(type) {
		case *ast.FuncDecl:
			scope = pkg.TypesInfo.Scopes[s.Type]
		case *ast.FuncLit:
			scope = pkg.TypesInfo.Scopes[s.Type]
		}
	}
	if scope == nil {
		scope = pkg.Types.Scope()
	}
	if pos.IsValid() {
		if in := scope.Innermost(pos); in != nil {
			scope = in
		}
		_, obj := scope.LookupParent(name, pos)
		return obj
	}
	// function-level: search the whole function scope tree for a unique match
	_, obj := scope.LookupParent(name, token.NoPos)
	if obj != nil {
		return obj
	}
	var found types.Object
	var walk func(s *types.Scope)
	walk = func(s *types.Scope) {
		if o := s.Lookup(name); o != nil && found == nil {
			found = o
		}
		for i := 0; i < s.NumChildren(); i++ {
			walk(s.Child(i))
		}
	}
	walk(scope)
	return found
}

var fileLines = map[string][]string{}
var fileLinesMu sync.Mutex

// lineText returns the trimmed source text of the line containing pos ("" if unknown).
func (P *Program) lineText(pos token.Pos) string {
	if !pos.IsValid() {
		return ""
	}
	p := P.Fset.Position(pos)
	fileLinesMu.Lock()
	defer fileLinesMu.Unlock()
	ls, ok := fileLines[p.Filename]
	if !ok {
		data, err := os.ReadFile(p.Filename)
		if err == nil {
			ls = strings.Split(string(data), "\n")
		}
		fileLines[p.Filename] = ls
	}
	if p.Line-1 < len(ls) && p.Line >= 1 {
		return strings.TrimSpace(ls[p.Line-1])
	}
	return ""
}
