package main

import (
	"context"
	"encoding/json"
	"flag"
	"fmt"
	"go/ast"
	"go/parser"
	"go/types"
	"os"
	"path/filepath"
	"strconv"
	"strings"
	"sync"
	"time"

	"golang.org/x/tools/go/ssa"
)

type LemmaResult struct {
	Name    string   `json:"lemma"`
	Method  string   `json:"method"`
	Queries int      `json:"queries"`
	Proved  int      `json:"proved"`
	Status  string   `json:"status"` // proved definitional unproved
	Backend []string `json:"backends,omitempty"`
	Seconds float64  `json:"seconds"`
	Text    string   `json:"statement"`
	Failed  []string `json:"failed_queries,omitempty"`
}

type lemmaQuery struct {
	name string
	text string
}

func cmdLemmas(args []string) {
	fs := flag.NewFlagSet("lemmas", flag.ExitOnError)
	repo := fs.String("repo", "/repo", "repository root")
	deps := fs.String("deps", "/verif/contracts/deps", "dependency contracts dir")
	mirror := fs.String("mirror", "/verif/contracts/mirror", "mirror")
	prelude := fs.String("prelude", "/verif/spec/prelude.smt2", "prelude")
	out := fs.String("out", "", "output json")
	only := fs.String("only", "", "only lemmas whose name contains this")
	timeout := fs.Int("timeout", 60, "per query timeout (s)")
	smtDir := fs.String("smtdir", "", "keep SMT files here")
	fs.Parse(args)
	P, err := loadProgram(*repo)
	if err != nil {
		fmt.Fprintln(os.Stderr, "load error:", err)
		os.Exit(2)
	}
	cs, _, err := loadContracts(P, *deps, *mirror)
	if err != nil {
		fmt.Fprintln(os.Stderr, err)
		os.Exit(2)
	}
	g := &Gen{P: P, CS: cs, tags: map[string]int{}, MaxInl: 4}
	if err := g.loadPreludes(filepath.Dir(*prelude)); err != nil {
		fmt.Fprintln(os.Stderr, err)
		os.Exit(2)
	}
	dir := *smtDir
	if dir == "" {
		dir, _ = os.MkdirTemp("", "slimvc-lemmas")
		defer os.RemoveAll(dir)
	}
	os.MkdirAll(dir, 0o755)
	var results []*LemmaResult
	bad := 0
	for _, e := range cs.Errors {
		fmt.Println("CONTRACT-PARSE-ERROR", e)
	}
	for _, name := range cs.LemmaOrder {
		if *only != "" && !strings.Contains(name, *only) {
			continue
		}
		l := cs.Lemmas[name]
		r := g.proveLemma(l, dir, time.Duration(*timeout)*time.Second)
		results = append(results, r)
		fmt.Printf("%-12s %-28s %-40s queries=%d proved=%d %.1fs %v\n", strings.ToUpper(r.Status), r.Name, r.Method, r.Queries, r.Proved, r.Seconds, r.Failed)
		if r.Status == "unproved" {
			bad++
		}
	}
	if *out != "" {
		data, _ := json.MarshalIndent(map[string]interface{}{"lemmas": results}, "", " ")
		os.WriteFile(*out, data, 0o644)
	}
	if bad > 0 {
		os.Exit(1)
	}
}

func splitUsing(proof string) (string, []string) {
	i := strings.Index(proof, " using ")
	if i < 0 {
		return strings.TrimSpace(proof), nil
	}
	var us []string
	for _, u := range strings.Split(proof[i+7:], ";") {
		if u = strings.TrimSpace(u); u != "" {
			us = append(us, u)
		}
	}
	return strings.TrimSpace(proof[:i]), us
}

func (g *Gen) proveLemma(l *LemmaDecl, dir string, timeout time.Duration) *LemmaResult {
	t0 := time.Now()
	r := &LemmaResult{Name: l.Name, Method: l.Proof, Text: "requires " + strings.Join(l.Requires, " && ") + " ensures " + strings.Join(l.Ensures, " && ")}
	defer func() { r.Seconds = time.Since(t0).Seconds() }()
	method, using := splitUsing(l.Proof)
	words := strings.Fields(method)
	if len(words) == 0 {
		r.Status = "unproved"
		r.Failed = []string{"no proof method"}
		return r
	}
	exact := false
	if words[len(words)-1] == "exact" {
		exact = true
		words = words[:len(words)-1]
	}
	if words[0] == "definition" {
		r.Status = "definitional"
		return r
	}
	pd := g.CS.Preds["lemma:"+l.Name]
	if pd == nil {
		r.Status = "unproved"
		r.Failed = []string{"lemma did not parse"}
		return r
	}
	// builds one query; bind maps parameter name -> override term (for the induction step)
	build := func(qname string, extraAssume func(f *FuncVC, env *Env) error, goalBind map[string]string, hyp bool) (*lemmaQuery, error) {
		f := g.newFuncVC(nil, "lemma."+l.Name, nil)
		f.exactAll = exact
		st := &State{reach: "true", cells: map[*ssa.Alloc]Val{}, heap: map[string]string{}}
		f.heapGet(st, "alloc", "(Array Int Bool)")
		f.entryState = st
		env := &Env{f: f, st: st, old: st, vars: map[string]Val{}, vtypes: map[string]types.Type{}, pkg: g.pkgByPath(pd.Pkg)}
		for _, p := range pd.Params {
			t, err := env.typeExpr(p.TypeExpr)
			if err != nil {
				return nil, err
			}
			v := f.freshVal(st, "p."+p.Name, t)
			env.vars[p.Name] = v
			env.vtypes[p.Name] = t
		}
		for _, u := range using {
			x, err := parseSpecExpr(u)
			if err != nil {
				return nil, fmt.Errorf("using %q: %v", u, err)
			}
			if err := env.useLemma(x); err != nil {
				return nil, fmt.Errorf("using %q: %v", u, err)
			}
		}
		if extraAssume != nil {
			if err := extraAssume(f, env); err != nil {
				return nil, err
			}
		}
		if hyp {
			h, err := env.boolExpr(pd.Body)
			if err != nil {
				return nil, err
			}
			f.assume(h)
		}
		genv := env.child()
		for k, t := range goalBind {
			v := genv.vars[k]
			v.T = t
			genv.vars[k] = v
		}
		goal, err := genv.boolExpr(pd.Body)
		if err != nil {
			return nil, err
		}
		var b strings.Builder
		b.WriteString("(set-logic ALL)\n")
		b.WriteString(g.preludeText(exact, exact))
		for _, d := range f.decls {
			b.WriteString(d + "\n")
		}
		for _, c := range f.cmds {
			b.WriteString(c + "\n")
		}
		b.WriteString("; lemma " + l.Name + " / " + qname + "\n(assert (not " + goal + "))\n(check-sat)\n")
		return &lemmaQuery{name: qname, text: b.String()}, nil
	}
	var queries []*lemmaQuery
	fail := func(err error) *LemmaResult {
		r.Status = "unproved"
		r.Failed = []string{err.Error()}
		return r
	}
	intArg := func(s string) (int, error) { return strconv.Atoi(s) }
	switch words[0] {
	case "auto":
		q, err := build("auto", nil, nil, false)
		if err != nil {
			return fail(err)
		}
		queries = append(queries, q)
	case "cases":
		if len(words) != 4 {
			return fail(fmt.Errorf("cases v lo hi expected"))
		}
		lo, err1 := intArg(words[2])
		hi, err2 := intArg(words[3])
		if err1 != nil || err2 != nil {
			return fail(fmt.Errorf("cases bounds must be integers"))
		}
		v := words[1]
		// the case split must cover the lemma's precondition: prove requires ==> lo <= v <= hi
		for c := lo; c <= hi; c++ {
			cc := c
			q, err := build(fmt.Sprintf("%s=%d", v, cc), func(f *FuncVC, env *Env) error {
				pv, ok := env.vars[v]
				if !ok {
					return fmt.Errorf("unknown case variable %s", v)
				}
				f.assume("(= " + f.it(pv) + " " + intLitI(int64(cc)) + ")")
				return nil
			}, nil, false)
			if err != nil {
				return fail(err)
			}
			queries = append(queries, q)
		}
		// coverage query: outside [lo,hi] the precondition is false (or the statement holds)
		q, err := build("outside-range", func(f *FuncVC, env *Env) error {
			pv := env.vars[v]
			f.assume("(or (< " + f.it(pv) + " " + intLitI(int64(lo)) + ") (> " + f.it(pv) + " " + intLitI(int64(hi)) + "))")
			return nil
		}, nil, false)
		if err != nil {
			return fail(err)
		}
		queries = append(queries, q)
	case "induction":
		// induction v from e
		if len(words) < 4 || words[2] != "from" {
			return fail(fmt.Errorf("induction v from e expected"))
		}
		v := words[1]
		fromText := strings.Join(words[3:], " ")
		fromExpr, err := parser.ParseExpr(fromText)
		if err != nil {
			return fail(err)
		}
		evalFrom := func(env *Env) (string, error) {
			fv, _, err := env.expr(fromExpr)
			if err != nil {
				return "", err
			}
			return env.f.it(fv), nil
		}
		base, err := build("base", func(f *FuncVC, env *Env) error {
			ft, err := evalFrom(env)
			if err != nil {
				return err
			}
			f.assume("(= " + f.it(env.vars[v]) + " " + ft + ")")
			return nil
		}, nil, false)
		if err != nil {
			return fail(err)
		}
		var vterm string
		step, err := build("step", func(f *FuncVC, env *Env) error {
			ft, err := evalFrom(env)
			if err != nil {
				return err
			}
			vterm = f.it(env.vars[v])
			f.assume("(>= " + vterm + " " + ft + ")")
			return nil
		}, nil, true)
		if err != nil {
			return fail(err)
		}
		// rebuild the step with the goal at v+1 (vterm is known now)
		step, err = build("step", func(f *FuncVC, env *Env) error {
			ft, err := evalFrom(env)
			if err != nil {
				return err
			}
			f.assume("(>= " + f.it(env.vars[v]) + " " + ft + ")")
			return nil
		}, map[string]string{v: "(+ " + vterm + " 1)"}, true)
		if err != nil {
			return fail(err)
		}
		// below the base the precondition must be false
		below, err := build("below-base", func(f *FuncVC, env *Env) error {
			ft, err := evalFrom(env)
			if err != nil {
				return err
			}
			f.assume("(< " + f.it(env.vars[v]) + " " + ft + ")")
			return nil
		}, nil, false)
		if err != nil {
			return fail(err)
		}
		queries = append(queries, base, step, below)
	default:
		return fail(fmt.Errorf("unknown proof method %q", words[0]))
	}
	r.Queries = len(queries)
	var mu sync.Mutex
	var wg sync.WaitGroup
	backs := map[string]bool{}
	for _, q := range queries {
		wg.Add(1)
		go func(q *lemmaQuery) {
			defer wg.Done()
			solverSem <- struct{}{}
			defer func() { <-solverSem }()
			file := filepath.Join(dir, sanitize("lemma."+l.Name+"."+q.name)+".smt2")
			os.WriteFile(file, []byte(q.text), 0o644)
			ok := false
			var who string
			h := queryHash(q.text)
			t1 := time.Now()
			if ce, hit := proofCache.get(h); hit {
				ok, who = true, ce.solver+" (cached)"
			} else {
				a, _, _ := runSolver(solvers[0], file, 5*time.Second)
				if a == "unsat" {
					ok, who = true, solvers[0].Name
				} else {
					// portfolio, cancelled as soon as one solver answers unsat
					type res struct {
						a string
						s Solver
					}
					ctx, cancel := context.WithCancel(context.Background())
					ch := make(chan res, len(solvers))
					for _, s := range solvers {
						go func(s Solver) {
							a, _, _ := runSolverCtx(ctx, s, file, timeout)
							ch <- res{a, s}
						}(s)
					}
					for range solvers {
						x := <-ch
						if x.a == "unsat" && !ok {
							ok, who = true, x.s.Name
							cancel()
						}
					}
					cancel()
				}
				if ok {
					proofCache.put(h, who, time.Since(t1).Seconds(), "lemma."+l.Name+"/"+sanitize(q.name))
				}
			}
			mu.Lock()
			if ok {
				r.Proved++
				backs[who] = true
			} else {
				r.Failed = append(r.Failed, q.name)
			}
			mu.Unlock()
		}(q)
	}
	wg.Wait()
	for b := range backs {
		r.Backend = append(r.Backend, b)
	}
	if r.Proved == r.Queries {
		r.Status = "proved"
	} else {
		r.Status = "unproved"
	}
	return r
}

var _ ast.Expr


// lemmaClosure returns the lemmas in `used` plus every lemma their proofs use (transitively), in library order.
func (g *Gen) lemmaClosure(used map[string]bool) []string {
	need := map[string]bool{}
	var visit func(n string)
	visit = func(n string) {
		if need[n] {
			return
		}
		l := g.CS.Lemmas[n]
		if l == nil {
			return
		}
		need[n] = true
		_, using := splitUsing(l.Proof)
		for _, u := range using {
			if i := strings.Index(u, "("); i > 0 {
				visit(strings.TrimSpace(u[:i]))
			}
		}
	}
	for n := range used {
		visit(n)
	}
	var out []string
	for _, n := range g.CS.LemmaOrder {
		if need[n] {
			out = append(out, n)
		}
	}
	return out
}

// proveLemmasAsFunc proves the given lemmas and reports them as the obligations of a pseudo-function "lemma library":
// every `use` of a lemma in a verified function is backed, in the same run, by the lemma's own proof (regenerated from
// the current contract text; quick tier: memoised by query hash like every other obligation).
func (g *Gen) proveLemmasAsFunc(names []string, dir string, timeout time.Duration) *FuncResult {
	fr := &FuncResult{Key: "lemma library", Pos: "contracts"}
	t0 := time.Now()
	results := make([]*LemmaResult, len(names))
	var wg sync.WaitGroup
	for i, n := range names {
		wg.Add(1)
		go func(i int, n string) {
			defer wg.Done()
			results[i] = g.proveLemma(g.CS.Lemmas[n], dir, timeout)
		}(i, n)
	}
	wg.Wait()
	for i, r := range results {
		o := &Obligation{Name: "lemma library/lemma#" + names[i], Kind: "lemma", Func: "lemma library", Pos: "contracts", Detail: "lemma " + names[i] + " (" + r.Method + "): " + r.Text, Seconds: r.Seconds}
		switch r.Status {
		case "proved":
			o.Status = "discharged"
			o.Backend = strings.Join(r.Backend, ",")
			o.Output = fmt.Sprintf("unsat (%d/%d queries)", r.Proved, r.Queries)
		case "definitional":
			// the defining equation of an uninterpreted spec function: an axiom, not an obligation — reported under assumptions
			fr.Assumptions = append(fr.Assumptions, "definitional lemma "+names[i]+": the defining equation of an uninterpreted spec function (axiom; non-recursive, or tail-recursive and therefore satisfiable): "+r.Text)
			continue
		default:
			o.Status = "failed"
			o.Output = "unproved: " + strings.Join(r.Failed, "; ")
		}
		fr.Obligations = append(fr.Obligations, o)
	}
	fr.Seconds = time.Since(t0).Seconds()
	return fr
}
