package main

import (
	"fmt"
	"os"
	"strings"

	"golang.org/x/tools/go/packages"
	"golang.org/x/tools/go/ssa"
	"golang.org/x/tools/go/ssa/ssautil"
)

func main() {
	cfg := &packages.Config{Mode: packages.LoadAllSyntax, Dir: os.Args[1], BuildFlags: []string{"-tags=verif"}}
	pkgs, err := packages.Load(cfg, "./trie", "./encode", "./array", "./index")
	if err != nil {
		panic(err)
	}
	prog, _ := ssautil.AllPackages(pkgs, ssa.NaiveForm|ssa.GlobalDebug)
	prog.Build()
	want := os.Args[2:]
	for fn := range ssautil.AllFunctions(prog) {
		s := fn.String()
		for _, w := range want {
			if strings.HasSuffix(s, w) {
				fn.WriteTo(os.Stdout)
				for _, b := range fn.Blocks {
					for _, in := range b.Instrs {
						if v, ok := in.(ssa.Value); ok {
							fmt.Printf("   %s : %T %s\n", v.Name(), in, v.Type())
						}
					}
				}
			}
		}
	}
}
