#!/bin/bash
# Builds the verification machinery from files on disk only (offline).
set -e
cd "$(dirname "$0")"
export GOFLAGS=-mod=mod GOPROXY=off GOSUMDB=off GOTOOLCHAIN=local
mkdir -p bin evidence
(cd engine && go build -o ../bin/slimvc ./cmd/slimvc)
if [ -d framecheck ]; then
  (cd framecheck && go build -o ../bin/framecheck .)
fi
# the prelude is generated deterministically; regenerate to make sure the committed copy is current
python3 spec/gen_prelude.py >/dev/null
echo "setup ok"
