; spec functions that depend on popcount / conversions
(declare-fun rank1w ((Array Int (_ BitVec 64)) Int Int) Int)
(define-fun rank1 ((a (Array Int (_ BitVec 64))) (o Int) (i Int)) Int (+ (rank1w a o (div i 64)) (popcnt64 (bvand (select a (+ o (div i 64))) (mask64 (mod i 64))))))
